"""Serializer shapes shared by C01.c (parse-back) and C15 (pretty vs compact)."""
from __future__ import annotations

from harness import xmlmodel
from harness.common import tree
from pyxform.utils import escape_text_for_xml, node

N_SHAPES = 11  # shapes 0-10 are shared with C01.c; 11+ are C15-only
N_SHAPES_C15 = 12


def build(shape: int, t1: str, t2: str):
    """real pyxform node() trees with symbolic text/attribute segments"""
    if shape == 0:
        return node("a")
    if shape == 1:
        return node("a", t1)
    if shape == 2:
        return node("a", node("b", t1), node("c"), node("d", t2))
    if shape == 3:  # text + output + text (the label-with-reference path, through the XML parser)
        s = escape_text_for_xml(t1) + '<output value="/d/q"/>' + escape_text_for_xml(t2)
        return node("label", s, toParseString=True)
    if shape == 4:  # output first
        s = '<output value="/d/q"/>' + escape_text_for_xml(t1)
        return node("label", s, toParseString=True)
    if shape == 5:  # output last
        s = escape_text_for_xml(t1) + '<output value="/d/q"/>'
        return node("label", s, toParseString=True)
    if shape == 6:  # several attributes
        return node("a", k1=t1, k2=t2, k3="v")
    if shape == 7:  # nested: element-only parent holding a mixed-content child and an empty one
        s = escape_text_for_xml(t1) + '<output value="/d/q"/>'
        return node("g", node("label", s, toParseString=True), node("e"), node("f", t2))
    if shape == 8:  # text-bearing leaf below two element-only levels, with attribute
        return node("h:html", node("h:head", node("h:title", t1), node("model", node("bind", nodeset=t2))))
    if shape == 9:  # two outputs with text between
        s = '<output value="/d/q"/>' + escape_text_for_xml(t1) + '<output value="/d/r"/>' + escape_text_for_xml(t2)
        return node("hint", s, toParseString=True)
    if shape == 10:  # two adjacent outputs followed by text, then an output
        s = '<output value="/d/q"/><output value="/d/r"/>' + escape_text_for_xml(t1) + '<output value="/d/s"/>' + escape_text_for_xml(t2)
        return node("label", s, toParseString=True)
    if shape == 11:  # references separated only by t1 (no other text in the element)
        s = '<output value="/d/q"/>' + escape_text_for_xml(t1) + '<output value="/d/r"/>'
        return node("label", s, toParseString=True)
    raise ValueError(shape)


def _ws(s: str) -> bool:
    for c in s:
        if not (c == " " or c == "\n" or c == "\t" or c == "\r"):
            return False
    return True


def norm(t):
    """document equivalence used by C15: drop white-space-only text nodes of elements that have
    no non-white-space text (element-only content)."""
    if isinstance(t, str):
        return t
    tag, attrs, kids = t
    has_text = False
    for k in kids:
        if isinstance(k, str) and not _ws(k):
            has_text = True
    out = []
    for k in kids:
        if isinstance(k, str):
            if has_text:
                out.append(k)
        else:
            out.append(norm(k))
    return (tag, attrs, tuple(out))


def unpad(t):
    """the writer pads mixed content with one boundary space (documented exception)"""
    if isinstance(t, str):
        return t
    tag, attrs, kids = t
    kids = [unpad(k) for k in kids]
    if len(kids) > 1:
        if isinstance(kids[0], str) and kids[0].startswith(" "):
            kids[0] = kids[0][1:]
        if isinstance(kids[-1], str) and kids[-1].endswith(" "):
            kids[-1] = kids[-1][:-1]
        elif not isinstance(kids[-1], str):
            pass
    kids = [k for k in kids if k != ""]
    return (tag, attrs, tuple(kids))


def merge_text(t):
    """adjacent text nodes are one text node to a parser"""
    if isinstance(t, str):
        return t
    tag, attrs, kids = t
    out = []
    for k in kids:
        k = merge_text(k)
        if isinstance(k, str) and out and isinstance(out[-1], str):
            out[-1] = out[-1] + k
        elif k != "":
            out.append(k)
    return (tag, attrs, tuple(out))
