"""S5: a small pure-Python XML 1.0 fragment parser producing minidom nodes — a model of
expat for the one call site `pyxform.utils.node(toParseString=True)`, and the reference
"XML parser" used by oracles that read serialised output back.

Tokenisation is done with regular expressions (CrossHair executes `re` symbolically), written
from the XML 1.0 productions: STag/ETag/EmptyElemTag, Attribute, AttValue, CharData, Reference.
Supports: optional XML declaration, elements, attributes (single/double quoted), character
data, the five predefined entities and numeric character references, empty-element tags.
Anything else (comments, CDATA, PI, DTD) raises XMLModelError: the code under test never
produces them, and if it did the check must not silently accept it.
"""
from __future__ import annotations

import re
from xml.dom import minidom


class XMLModelError(Exception):
    pass


_NAME = r"[^\s<>/=&\"'!?]+"
_ATTR = r"\s+" + _NAME + r"\s*=\s*(?:\"[^<\"]*\"|'[^<']*')"
_STAG = re.compile(r"<(" + _NAME + r")((?:" + _ATTR + r")*)\s*(/?)>")
_ETAG = re.compile(r"</(" + _NAME + r")\s*>")
_ONE_ATTR = re.compile(r"\s+(" + _NAME + r")\s*=\s*(?:\"([^<\"]*)\"|'([^<']*)')")
_TEXT = re.compile(r"[^<]+")
_REF = re.compile(r"&(?:(amp|lt|gt|quot|apos)|#([0-9]+)|#x([0-9a-fA-F]+));")
_XMLDECL = re.compile(r"<\?xml[^?]*\?>\s*")
_ENT = {"amp": "&", "lt": "<", "gt": ">", "quot": '"', "apos": "'"}


def _sub_ref(m):
    if m.group(1) is not None:
        return _ENT[m.group(1)]
    if m.group(2) is not None:
        return chr(int(m.group(2)))
    return chr(int(m.group(3), 16))


def _unescape(s: str) -> str:
    out = _REF.sub(_sub_ref, s)
    # any '&' left over was not a well-formed reference (one unescape pass may itself produce '&')
    if _REF.sub("", s).find("&") >= 0:
        raise XMLModelError("bare '&' or undefined entity")
    return out


def parse(s: str):
    """-> minidom Document (documentElement is the root element)"""
    doc = minidom.Document()
    pos = 0
    m = _XMLDECL.match(s)
    if m:
        pos = m.end()
    el, pos = _element(doc, s, pos)
    if s[pos:].strip() != "":
        raise XMLModelError("junk after document element")
    doc.appendChild(el)
    return doc


def _element(doc, s: str, pos: int):
    m = _STAG.match(s, pos)
    if m is None:
        raise XMLModelError("start tag expected")
    tag = m.group(1)
    el = doc.createElement(tag)
    for am in _ONE_ATTR.finditer(m.group(2)):
        name = am.group(1)
        raw = am.group(2) if am.group(2) is not None else am.group(3)
        if el.hasAttribute(name):
            raise XMLModelError("duplicate attribute")
        el.setAttribute(name, _unescape(raw))
    pos = m.end()
    if m.group(3) == "/":
        return el, pos
    while True:
        tm = _TEXT.match(s, pos)
        if tm is not None:
            raw = tm.group(0)
            if "]]>" in raw:
                raise XMLModelError("']]>' in character data")
            el.appendChild(doc.createTextNode(_unescape(raw)))
            pos = tm.end()
        em = _ETAG.match(s, pos)
        if em is not None:
            if em.group(1) != tag:
                raise XMLModelError("mismatched end tag")
            return el, em.end()
        if pos >= len(s):
            raise XMLModelError("unterminated element " + tag)
        child, pos = _element(doc, s, pos)
        el.appendChild(child)


def parse_bytes(b):
    """drop-in for defusedxml.minidom.parseString at pyxform.utils.node"""
    if isinstance(b, (bytes, bytearray)):
        b = b.decode("utf-8")
    return parse(b)
