"""S5: a small pure-Python XML 1.0 fragment parser producing minidom nodes — a model of
expat for the one call site `pyxform.utils.node(toParseString=True)`, and the reference
"XML parser" used by oracles that read serialised output back.

Supports: optional XML declaration, elements, attributes (single/double quoted), character
data, the five predefined entities and numeric character references, empty-element tags.
Anything else (comments, CDATA, PI, DTD) raises XMLModelError: the code under test never
produces them, and if it did the check must not silently accept it.
"""
from __future__ import annotations

from xml.dom import minidom


class XMLModelError(Exception):
    pass


_ENT = (("&amp;", "&"), ("&lt;", "<"), ("&gt;", ">"), ("&quot;", '"'), ("&apos;", "'"))


def _unescape(s: str) -> str:
    out = ""
    i = 0
    n = len(s)
    while i < n:
        j = s.find("&", i)
        if j < 0:
            out = out + s[i:]
            break
        out = out + s[i:j]
        k = s.find(";", j)
        if k < 0:
            raise XMLModelError("unterminated entity reference")
        ent = s[j : k + 1]
        rep = None
        for e, r in _ENT:
            if ent == e:
                rep = r
        if rep is None:
            if ent.startswith("&#x"):
                try:
                    rep = chr(int(ent[3:-1], 16))
                except ValueError:
                    raise XMLModelError("bad character reference") from None
            elif ent.startswith("&#"):
                try:
                    rep = chr(int(ent[2:-1]))
                except ValueError:
                    raise XMLModelError("bad character reference") from None
            else:
                raise XMLModelError("undefined entity " + ent)
        out = out + rep
        i = k + 1
    return out


def _is_ws(c: str) -> bool:
    return c == " " or c == "\n" or c == "\t" or c == "\r"


def parse(s: str):
    """-> minidom Document (documentElement is the root element)"""
    doc = minidom.Document()
    pos = 0
    if s.startswith("<?xml"):
        e = s.find("?>")
        if e < 0:
            raise XMLModelError("unterminated XML declaration")
        pos = e + 2
    while pos < len(s) and _is_ws(s[pos]):
        pos += 1
    el, pos = _element(doc, s, pos)
    while pos < len(s) and _is_ws(s[pos]):
        pos += 1
    if pos != len(s):
        raise XMLModelError("junk after document element")
    doc.appendChild(el)
    return doc


def _name(s: str, pos: int):
    st = pos
    n = len(s)
    while pos < n:
        c = s[pos]
        if _is_ws(c) or c == ">" or c == "/" or c == "=" or c == "<" or c == '"' or c == "'" or c == "&":
            break
        pos += 1
    if pos == st:
        raise XMLModelError("name expected")
    return s[st:pos], pos


def _element(doc, s: str, pos: int):
    n = len(s)
    if pos >= n or s[pos] != "<":
        raise XMLModelError("'<' expected")
    if pos + 1 < n and (s[pos + 1] == "!" or s[pos + 1] == "?"):
        raise XMLModelError("comment / CDATA / PI not supported by the model")
    tag, pos = _name(s, pos + 1)
    el = doc.createElement(tag)
    while True:
        had_ws = False
        while pos < n and _is_ws(s[pos]):
            pos += 1
            had_ws = True
        if pos >= n:
            raise XMLModelError("unterminated start tag")
        c = s[pos]
        if c == ">":
            pos += 1
            break
        if c == "/":
            if pos + 1 < n and s[pos + 1] == ">":
                return el, pos + 2
            raise XMLModelError("bad empty-element tag")
        if not had_ws:
            raise XMLModelError("white space required before attribute")
        an, pos = _name(s, pos)
        while pos < n and _is_ws(s[pos]):
            pos += 1
        if pos >= n or s[pos] != "=":
            raise XMLModelError("'=' expected")
        pos += 1
        while pos < n and _is_ws(s[pos]):
            pos += 1
        if pos >= n or (s[pos] != '"' and s[pos] != "'"):
            raise XMLModelError("quote expected")
        q = s[pos]
        e = s.find(q, pos + 1)
        if e < 0:
            raise XMLModelError("unterminated attribute value")
        raw = s[pos + 1 : e]
        if "<" in raw:
            raise XMLModelError("'<' in attribute value")
        if el.hasAttribute(an):
            raise XMLModelError("duplicate attribute")
        el.setAttribute(an, _unescape(raw))
        pos = e + 1
    # content
    while True:
        lt = s.find("<", pos)
        if lt < 0:
            raise XMLModelError("unterminated element " + tag)
        if lt > pos:
            raw = s[pos:lt]
            if "]]>" in raw:
                raise XMLModelError("']]>' in character data")
            el.appendChild(doc.createTextNode(_unescape(raw)))
        if lt + 1 < n and s[lt + 1] == "/":
            cn, p2 = _name(s, lt + 2)
            while p2 < n and _is_ws(s[p2]):
                p2 += 1
            if cn != tag or p2 >= n or s[p2] != ">":
                raise XMLModelError("mismatched end tag")
            return el, p2 + 1
        child, pos = _element(doc, s, lt)
        el.appendChild(child)


def parse_bytes(b):
    """drop-in for defusedxml.minidom.parseString at pyxform.utils.node"""
    if isinstance(b, (bytes, bytearray)):
        b = b.decode("utf-8")
    return parse(b)
