"""C15 — pretty_print is purely cosmetic."""
from __future__ import annotations

from harness import shims, xmlmodel
from harness import shapes as SH
from harness.common import S, tree
from vf.registry import ob, specialise

shims.standard()
shims.s5_xml_parser()

OUTSIDE = "text segments longer than 2 characters; trees beyond the 10 listed shapes and the C06.f form"
ASSUMPTIONS = [
    "document equivalence: white-space-only text nodes are ignored in elements that have no other text (element-only content), everything else must be identical",
    "S5 pure-Python XML parser model reads both serialisations back (and replaces expat in node(toParseString=True)) inside CrossHair; witnesses re-run with expat",
]
K = (
    "pyxform.utils:node",
    "pyxform.utils:DetachableElement.writexml",
    "pyxform.utils:PatchedText.writexml",
    "pyxform.utils:escape_text_for_xml",
    "xml.dom.minidom:Text.writexml",
    "xml.dom.minidom:_write_data",
)


SEG = [(32, 126), (9, 10), (8232, 8233), (8191, 8203), (159, 161), (12287, 12289)]  # printable ASCII / TAB,LF / LINE+PARAGRAPH SEPARATOR / Unicode spaces U+2000-200A and neighbours / NBSP and neighbours / IDEOGRAPHIC SPACE and neighbours


def c15_shape(shape: int, rp: int, n1: int, n2: int, a0: int, a1: int, b0: int, b1: int) -> bool:
    """
    vpre: SEG[rp][0] <= a0 <= SEG[rp][1] and 32 <= a1 <= 126
    vpre: 32 <= b0 <= 126 and 32 <= b1 <= 126
    vpost: _ == True
    """
    t1 = S(*((a0, a1)[:n1])) if n1 else "x"
    t2 = S(*((b0, b1)[:n2])) if n2 else "y"
    n = SH.build(shape, t1, t2)
    compact = n.toxml()
    pretty = n.toprettyxml(indent="  ")
    tc = tree(xmlmodel.parse(compact).documentElement)
    tp = tree(xmlmodel.parse(pretty).documentElement)
    return SH.norm(tc) == SH.norm(tp)


specialise(
    "C15",
    "a.shapes",
    c15_shape,
    {"shape": list(range(1, SH.N_SHAPES)), "rp": [0, 1, 2], "n1": [1], "n2": [0]},
    reach_if=lambda fx: fx["rp"] == 0,
    timeout=300,
    kernel=K,
    shims=("S2", "S5"),
    symbolic="first text/attribute segment = 1 symbolic character over a contiguous range fixed per instance (printable ASCII / TAB-LF / U+2028-2029), second segment fixed",
    bounds="shape fixed per instance (text-only, element-only, text+output+text, output first/last, attributes, nested mixed, html skeleton, two outputs)",
    weight=60,
)
specialise(
    "C15",
    "a.shapes",
    c15_shape,
    {"shape": list(range(1, SH.N_SHAPES)), "rp": [0, 1], "n1": [1, 2], "n2": [1]},
    reach_if=lambda fx: fx["rp"] == 0 and fx["n1"] == 1,
    tiers=("thorough",),
    timeout=1800,
    kernel=K,
    shims=("S2", "S5"),
    symbolic="two text/attribute segments of up to 2 symbolic characters (printable ASCII + TAB + LF + U+2028)",
    bounds="shape and segment lengths fixed per instance",
    weight=500,
)

specialise(
    "C15",
    "a.shapes-unicode-space",
    c15_shape,
    {"shape": [3, 9, 10, 11], "rp": [0, 3, 4, 5], "n1": [1], "n2": [0]},
    skip_if=lambda fx: fx["rp"] == 0 and fx["shape"] != 11,
    reach_if=lambda fx: fx["rp"] == 3 and fx["shape"] == 11,
    timeout=300,
    kernel=K,
    shims=("S2", "S5"),
    symbolic="the text between / around the output elements = 1 symbolic character over a contiguous range fixed per instance: characters that Python's str.isspace() accepts but XML does not treat as white space (U+2000-U+200A, U+00A0, U+3000) and their neighbours",
    bounds="mixed-content shapes (text+output+text, two outputs with text between, adjacent outputs, references separated by nothing but the symbolic character)",
    weight=40,
)


# ---- b: whole form, the public pretty/compact writers ----------------------------------------
from harness.common import build_survey  # noqa: E402

shims.standard()
FORM_SEG = [(32, 35), (8232, 8233), (9, 10)]


def c15_form(rp: int, where: int, c0: int) -> bool:
    """
    vpre: FORM_SEG[rp][0] <= c0 <= FORM_SEG[rp][1] and c0 != 36
    vpost: _ == True
    """
    t = "x" + S(c0) + "\ny z"  # a multi-line cell: the character before the line break is symbolic
    q = {"type": "text", "name": "q1", "label": "L"}
    wb = {"survey": [q], "choices": [{"list_name": "l1", "name": "a", "label": "A"}]}
    if where == 0:
        q["label"] = t
    elif where == 1:
        q["hint"] = t
    elif where == 2:
        q["label::L1"] = t
    else:
        wb["survey"].append({"type": "select_one l1", "name": "s", "label": "S"})
        wb["choices"][0]["label"] = t
    survey, _w, _js = build_survey(wb)
    compact = survey._to_ugly_xml()
    survey2, _w2, _js2 = build_survey(wb)
    pretty = survey2._to_pretty_xml()
    # Parsing the whole (symbolic) document is out of reach; the element that carries the cell is
    # cut out of both outputs by its concrete neighbourhood and only that element is parsed.
    a = _cut(compact)
    b = _cut(pretty)
    if a is None or b is None:
        return False
    ta = tree(xmlmodel.parse(a).documentElement)
    tb = tree(xmlmodel.parse(b).documentElement)
    return SH.norm(ta) == SH.norm(tb)


def _cut(out: str):
    i = out.find(">x")
    if i < 0:
        return None
    start = out.rfind("<", 0, i)
    tag_end = out.find(">", start)
    name = out[start + 1 : tag_end].split(" ")[0]
    close = "</" + name + ">"
    j = out.find(close, i)
    if j < 0:
        return None
    return out[start : j + len(close)]


def _squash(s: str) -> str:
    return "".join(s.split()).replace("<?xmlversion=\"1.0\"?>", "")


specialise(
    "C15",
    "b.form",
    c15_form,
    {"rp": [0, 1], "where": [0, 1, 2, 3]},
    reach_if=lambda fx: fx["rp"] == 0 and fx["where"] == 0,
    timeout=400,
    per_path_timeout=90.0,
    kernel=K + ("pyxform.survey:Survey._to_ugly_xml", "pyxform.survey:Survey._to_pretty_xml", "pyxform.survey:Survey.xml"),
    shims=("S1", "S2", "S3", "S4", "S5"),
    symbolic="the character before an embedded line break in a multi-line cell (U+0020-U+002F incl. space, quotes, ampersand / U+2028-2029)",
    bounds="channel fixed per instance: label, hint, itext label, choice label; whole document compared through the public _to_ugly_xml/_to_pretty_xml writers",
    weight=80,
)


# ---- c: text that reaches node() as a number, and text-bearing elements with structural tag names ----
from pyxform.utils import node as _node  # noqa: E402

TAGS = ["a", "item", "text", "root", "instance", "model", "translation", "itext", "value", "label", "h:body", "h:head", "h:html", "meta", "data", "bind"]


def _same(n) -> bool:
    tc = tree(xmlmodel.parse(n.toxml()).documentElement)
    tp = tree(xmlmodel.parse(n.toprettyxml(indent="  ")).documentElement)
    return SH.norm(tc) == SH.norm(tp)


@ob(
    "C15",
    "c.scalar-text",
    timeout=300,
    kernel=K,
    shims=("S2", "S5"),
    symbolic="an integer (-9..99) passed to node() as element content (choice names/values from dict or JSON workbooks arrive as numbers), alone / next to sibling elements / below two element-only levels (symbolic int)",
    bounds="3 tree arrangements; the pretty and compact serialisations must parse to the same tree",
    weight=20,
)
def c15_scalar(v: int, arr: int) -> bool:
    """
    pre: -9 <= v <= 99 and 0 <= arr <= 2
    post: _ == True
    """
    if arr == 0:
        n = _node("name", v)
    elif arr == 1:
        n = _node("item", _node("name", v), _node("label", "L"))
    else:
        n = _node("root", _node("item", _node("name", v), _node("w", 2)))
    return _same(n)


@ob(
    "C15",
    "c.tag-names",
    timeout=300,
    kernel=K,
    shims=("S2", "S5"),
    symbolic="tag name chosen by a symbolic index from 16 names (XForm structural names such as item, text, root, instance, model, h:body are legal question names), one symbolic text character, text-bearing leaf alone or inside an element-only parent of the same name (boolean)",
    bounds="the pretty writer's layout decision must depend on the node's content, never on its name",
    weight=20,
)
def c15_tagname(ti: int, nested: bool, c0: int) -> bool:
    """
    pre: 0 <= ti <= 15 and 32 <= c0 <= 126
    post: _ == True
    """
    t = TAGS[ti]
    leaf = _node(t, "b" + S(c0))
    n = _node(t, leaf, _node("z")) if nested else leaf
    return _same(n)
