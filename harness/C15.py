"""C15 — pretty_print is purely cosmetic."""
from __future__ import annotations

from harness import shims, xmlmodel
from harness import shapes as SH
from harness.common import S, tree
from vf.registry import ob, specialise

shims.standard()
shims.s5_xml_parser()

OUTSIDE = "text segments longer than 2 characters; trees beyond the 10 listed shapes and the C06.f form"
ASSUMPTIONS = [
    "document equivalence: white-space-only text nodes are ignored in elements that have no other text (element-only content), everything else must be identical",
    "S5 pure-Python XML parser model reads both serialisations back (and replaces expat in node(toParseString=True)) inside CrossHair; witnesses re-run with expat",
]
K = (
    "pyxform.utils:node",
    "pyxform.utils:DetachableElement.writexml",
    "pyxform.utils:PatchedText.writexml",
    "pyxform.utils:escape_text_for_xml",
    "xml.dom.minidom:Text.writexml",
    "xml.dom.minidom:_write_data",
)


def c15_shape(shape: int, n1: int, n2: int, a0: int, a1: int, b0: int, b1: int) -> bool:
    """
    vpre: (a0 == 9 or a0 == 10 or 32 <= a0 <= 126 or a0 == 8232) and (a1 == 9 or a1 == 10 or 32 <= a1 <= 126 or a1 == 8232)
    vpre: (b0 == 9 or b0 == 10 or 32 <= b0 <= 126 or b0 == 8232) and (b1 == 9 or b1 == 10 or 32 <= b1 <= 126 or b1 == 8232)
    vpost: _ == True
    """
    t1 = S(*((a0, a1)[:n1])) if n1 else "x"
    t2 = S(*((b0, b1)[:n2])) if n2 else "y"
    n = SH.build(shape, t1, t2)
    compact = n.toxml()
    pretty = n.toprettyxml(indent="  ")
    tc = tree(xmlmodel.parse(compact).documentElement)
    tp = tree(xmlmodel.parse(pretty).documentElement)
    return SH.norm(tc) == SH.norm(tp)


specialise(
    "C15",
    "a.shapes",
    c15_shape,
    {"shape": list(range(1, SH.N_SHAPES)), "n1": [1], "n2": [0]},
    timeout=300,
    kernel=K,
    shims=("S2", "S5"),
    symbolic="first text/attribute segment = 1 symbolic character over printable ASCII + TAB + LF + U+2028 (second segment fixed)",
    bounds="shape fixed per instance (text-only, element-only, text+output+text, output first/last, attributes, nested mixed, html skeleton, two outputs)",
    weight=60,
)
specialise(
    "C15",
    "a.shapes",
    c15_shape,
    {"shape": list(range(1, SH.N_SHAPES)), "n1": [1, 2], "n2": [1]},
    tiers=("thorough",),
    timeout=1800,
    kernel=K,
    shims=("S2", "S5"),
    symbolic="two text/attribute segments of up to 2 symbolic characters (printable ASCII + TAB + LF + U+2028)",
    bounds="shape and segment lengths fixed per instance",
    weight=500,
)
