"""C02 — model, instance and body agree: every nodeset/ref names one existing node."""
from __future__ import annotations

from harness import shims
from harness import seqmodel as M
from harness.common import S, build_survey, child_elements, elements
from vf.registry import ob, specialise

shims.standard()

from pyxform.errors import PyXFormError  # noqa: E402
from pyxform.question import InputQuestion  # noqa: E402
from pyxform.section import GroupedSection, RepeatingSection  # noqa: E402
from pyxform.survey import Survey  # noqa: E402

OUTSIDE = "sheets longer than the row bound; loops, include, flat mode; entity binds are covered in C19"
ASSUMPTIONS = [
    "S1-S4 shims inside CrossHair; witnesses re-run without them",
    "reference path resolver written from XPath child-step semantics (harness/seqmodel.py:resolve); jr:template copies are not part of the primary instance data",
]
K = (
    "pyxform.survey_element:SurveyElement.get_xpath",
    "pyxform.survey_element:SurveyElement.__setattr__",
    "pyxform.survey_element:SurveyElement.xml_bindings",
    "pyxform.survey_element:SurveyElement.get_setvalue_node_for_dynamic_default",
    "pyxform.section:Section.xml_instance",
    "pyxform.section:Section.generate_repeating_template",
    "pyxform.section:Section._validate_uniqueness_of_element_names",
    "pyxform.section:RepeatingSection.xml_control",
    "pyxform.section:GroupedSection.xml_control",
    "pyxform.question:Question._build_xml",
    "pyxform.question:Question.nest_set_nodes",
    "pyxform.survey:Survey._validate_uniqueness_of_section_names",
    "pyxform.xls2json:workbook_to_json",
)
VOC = [M.TEXT, M.CALC, M.BGROUP, M.EGROUP, M.BREPEAT, M.EREPEAT, M.SELECT_OTHER, M.BREPEAT_COUNT, M.DYN_DEFAULT, M.TRIGGERED, M.BGROUP_TABLE, M.SELECT, M.AUDIT]


def closure_seq(kinds, label: str):
    wb = {"survey": M.rows_ext(kinds, label), "choices": M.CHOICES, "survey_header": [dict(M.EXT_HEADER)]}
    try:
        survey, _w, _js = build_survey(wb)
        survey.validate()  # Survey.to_xml validates before it serialises
        root = survey.xml()
    except PyXFormError:
        return True  # rejected: nothing to check here (C17 decides whether rejection is right)
    r = M.closure_violation(root)
    return True if r is None else r


VOCQ = [M.TEXT, M.BGROUP, M.EGROUP, M.BREPEAT_COUNT, M.EREPEAT, M.SELECT_OTHER, M.TRIGGERED, M.AUDIT]


def c02_seq3(k0: int, i1: int, i2: int, l0: int) -> bool:
    """
    vpre: 0 <= i2 <= 7
    vpre: 33 <= l0 <= 126 and l0 != 36
    vpost: _ == True
    """
    return closure_seq([M.TEXT, k0, VOCQ[i1], VOCQ[i2]], S(l0, 66))


specialise(
    "C02",
    "a.closure-seq",
    c02_seq3,
    {"k0": VOCQ, "i1": list(range(8))},
    reach_if=lambda fx: fx["i1"] == 0,
    timeout=300,
    kernel=K,
    shims=("S1", "S2", "S3", "S4"),
    symbolic="one row kind over an 8-kind vocabulary (text, begin/end group, repeat with literal count (_count helper), end repeat, select or_other (_other helper), triggered calculate, audit (meta block)) and a label tracer with one symbolic character",
    bounds="row 0 is a text question (trigger source), rows 1-2 fixed per instance, row 3 symbolic: all 8^3 sequences after the first row",
    weight=40,
)


def c02_seq3full(k0: int, k1: int, i2: int, l0: int) -> bool:
    """
    vpre: 0 <= i2 <= 12
    vpre: 33 <= l0 <= 126 and l0 != 36
    vpost: _ == True
    """
    return closure_seq([M.TEXT, k0, k1, VOC[i2]], S(l0, 66))


specialise(
    "C02",
    "a.closure-seq-full",
    c02_seq3full,
    {"k0": VOC, "k1": VOC},
    reach_if=lambda fx: fx["k1"] == M.TEXT,
    tiers=("thorough",),
    timeout=400,
    kernel=K,
    shims=("S1", "S2", "S3", "S4"),
    symbolic="one row kind over the 12-kind vocabulary (text, calculate, begin/end group, begin/end repeat, select or_other, repeat with literal count, dynamic default, triggered calculate, table-list group, select_one) and a label tracer with one symbolic character",
    bounds="rows 1-2 fixed per instance: all 12^3 sequences of length 3 after the first text row",
    weight=60,
)


# ---- e: entity declarations (meta/entity node, its attributes and their binds) ------------------
def c02_entities(k1: int, p_id: bool, p_create: bool, p_update: bool, p_label: bool, p_save: bool, l0: int) -> bool:
    """
    vpre: 33 <= l0 <= 126 and l0 != 36
    vpost: _ == True
    """
    rows = M.rows_ext([M.TEXT, k1, M.TEXT], S(l0, 66))
    if p_save:
        rows[0]["save_to"] = "p1"
    ent = {"dataset": "ds"}
    # cells holding a reference are concrete (C lexer); their presence is symbolic
    if p_label:
        ent["label"] = "concat(${n0}, 'x')"
    if p_id:
        ent["entity_id"] = "${n0}"
    if p_create:
        ent["create_if"] = "${n0} != ''"
    if p_update:
        ent["update_if"] = "${n0} = 'u'"
    wb = {"survey": rows, "choices": M.CHOICES, "entities": [ent]}
    try:
        survey, _w, _js = build_survey(wb)
        survey.validate()
        root = survey.xml()
    except PyXFormError:
        return True
    r = M.closure_violation(root)
    return True if r is None else r


specialise(
    "C02",
    "e.closure-entities",
    c02_entities,
    {"k1": [M.TEXT, M.AUDIT, M.TRIGGERED]},
    timeout=400,
    kernel=K + ("pyxform.entities.entity_declaration:EntityDeclaration.xml_instance", "pyxform.entities.entity_declaration:EntityDeclaration.xml_bindings", "pyxform.entities.entities_parsing:get_entity_declaration"),
    shims=("S1", "S2", "S3", "S4"),
    symbolic="presence of the entities-sheet cells label, entity_id, create_if, update_if and of a save_to cell (5 symbolic booleans: every create / update / upsert declaration), a label tracer character",
    bounds="one entity declaration next to 3 survey rows (middle row kind fixed per instance); every bind of the meta/entity block, including attribute binds (/@id, /@baseVersion, ...), must name exactly one node or attribute of the primary instance",
    weight=60,
)


# ---- b: element names symbolic on fixed layouts ---------------------------------------


def _mk_layout(shape: int, names):
    s = Survey(name="data", id_string="x", title="x")
    a, b, c, d = names
    if shape == 0:  # data/g/r/q , data/q2
        g = GroupedSection(name=a, type="group", label="L")
        r = RepeatingSection(name=b, type="repeat", label="L")
        q = InputQuestion(name=c, type="text", label="L")
        q2 = InputQuestion(name=d, type="text", label="L", bind={"relevant": "1"})
        s.add_child(g)
        g.add_child(r)
        r.add_child(q)
        s.add_child(q2)
        paths = {g: [a], r: [a, b], q: [a, b, c], q2: [d]}
    elif shape == 1:  # data/r/g/q , data/r/q2
        r = RepeatingSection(name=a, type="repeat", label="L")
        g = GroupedSection(name=b, type="group", label="L")
        q = InputQuestion(name=c, type="text", label="L")
        q2 = InputQuestion(name=d, type="text", label="L")
        s.add_child(r)
        r.add_child(g)
        g.add_child(q)
        r.add_child(q2)
        paths = {r: [a], g: [a, b], q: [a, b, c], q2: [a, d]}
    else:  # data/g/q , data/g2/q2
        g = GroupedSection(name=a, type="group", label="L")
        q = InputQuestion(name=b, type="text", label="L")
        g2 = GroupedSection(name=c, type="group", label="L")
        q2 = InputQuestion(name=d, type="text", label="L")
        s.add_child(g)
        g.add_child(q)
        s.add_child(g2)
        g2.add_child(q2)
        paths = {g: [a], q: [a, b], g2: [c], q2: [c, d]}
    return s, paths


def _child_named_at(parent, idx, name):
    kids = [c for c in child_elements(parent) if not M.is_template(c)]
    if idx >= len(kids):
        return None
    return kids[idx] if kids[idx].tagName == name else None


def c02_names(shape: int, a0: int, a1: int, b0: int, b1: int, c0: int, c1: int, d0: int, d1: int) -> bool:
    """
    vpre: 97 <= a0 <= 122 and 97 <= a1 <= 122 and 97 <= b0 <= 122 and 97 <= b1 <= 122
    vpre: 97 <= c0 <= 122 and 97 <= c1 <= 122 and 97 <= d0 <= 122 and 97 <= d1 <= 122
    vpre: a0 * 256 + a1 != b0 * 256 + b1 and a0 * 256 + a1 != c0 * 256 + c1 and a0 * 256 + a1 != d0 * 256 + d1
    vpre: b0 * 256 + b1 != c0 * 256 + c1 and b0 * 256 + b1 != d0 * 256 + d1 and c0 * 256 + c1 != d0 * 256 + d1
    vpost: _ == True
    """
    names = [S(a0, a1), S(b0, b1), S(c0, c1), S(d0, d1)]
    s, paths = _mk_layout(shape, names)
    for el, segs in paths.items():
        if el.get_xpath() != "/data/" + "/".join(segs):
            return False
    inst = s.xml_instance()
    # positional walk: the node of every element sits where the sheet nesting puts it
    POS = {0: {(0,): 0, (0, 1): 0, (0, 1, 2): 0, (3,): 1}, 1: {(0,): 0, (0, 1): 0, (0, 1, 2): 0, (0, 3): 1}, 2: {(0,): 0, (0, 1): 0, (2,): 1, (2, 3): 0}}[shape]
    for idxs, pos in POS.items():
        cur = inst
        for j, ni in enumerate(idxs):
            want_pos = pos if j == len(idxs) - 1 else POS[idxs[: j + 1]]
            cur = _child_named_at(cur, want_pos, names[ni])
            if cur is None:
                return False
    shims.s3_prefill_xpath(s)
    if s._xpath is None:
        s._setup_xpath_dictionary()
    for el, segs in paths.items():
        p = "/data/" + "/".join(segs)
        for b in el.xml_bindings(survey=s) or ():
            if b.getAttribute("nodeset") != p:
                return False
        ctl = el.xml_control(survey=s)
        if ctl is not None and ctl.getAttribute("ref") != p:
            return False
    return True


specialise(
    "C02",
    "b.names",
    c02_names,
    {"shape": [0, 1, 2]},
    timeout=500,
    kernel=K,
    shims=("S1", "S2", "S3", "S4"),
    symbolic="4 element names of 2 symbolic characters over [a-z], pairwise distinct",
    bounds="3 fixed layouts (group/repeat/question; repeat/group/question + sibling; two groups), depth 3",
    weight=120,
)


# ---- c: ambiguity rejected --------------------------------------------------------------


def c02_ambiguity(in_group: bool, between: int, ua0: bool, ua1: bool, ub0: bool, ub1: bool, a0: int, a1: int, b0: int, b1: int) -> bool:
    """
    vpre: 0 <= between <= 2
    vpre: 97 <= a0 <= 122 and 97 <= a1 <= 122 and 97 <= b0 <= 122 and 97 <= b1 <= 122
    vpost: _ == True
    """
    # letter case is chosen by symbolic booleans (contiguous ranges keep preconditions fork-free)
    a0, a1 = (a0 - 32 if ua0 else a0), (a1 - 32 if ua1 else a1)
    b0, b1 = (b0 - 32 if ub0 else b0), (b1 - 32 if ub1 else b1)
    A, B = S(a0, a1), S(b0, b1)
    s = Survey(name="data", id_string="x", title="x")
    parent = s
    if in_group:
        parent = GroupedSection(name="grp", type="group", label="L")
        s.add_child(parent)
    parent.add_child(InputQuestion(name=A, type="text", label="L"))
    # 0-2 unrelated siblings between the two candidates (names cannot clash: they contain digits)
    for i in range(between):
        parent.add_child(InputQuestion(name=f"z{i}9", type="text", label="L"))
    parent.add_child(InputQuestion(name=B, type="text", label="L"))

    def low(c):
        return c + 32 if c <= 90 else c

    same = low(a0) == low(b0) and low(a1) == low(b1)
    try:
        s.validate()
    except PyXFormError:
        return same
    return not same


specialise(
    "C02",
    "c.ambiguity",
    c02_ambiguity,
    {"in_group": [False, True]},
    timeout=400,
    kernel=("pyxform.section:Section._validate_uniqueness_of_element_names", "pyxform.section:Section.validate", "pyxform.survey:Survey.validate"),
    shims=("S1", "S2", "S4"),
    symbolic="two sibling names of 2 symbolic letters (upper/lower case) and the number (0-2) of unrelated siblings placed between them",
    bounds="names length 2 over [A-Za-z]; siblings directly under the root or under one group (fixed per instance)",
    weight=80,
)


# ---- d: re-parenting history ------------------------------------------------------------


@ob(
    "C02",
    "d.reparent",
    timeout=300,
    kernel=("pyxform.survey_element:SurveyElement.get_xpath", "pyxform.survey_element:SurveyElement.__setattr__", "pyxform.survey_element:SurveyElement.add_child"),
    shims=("S1", "S2", "S4"),
    symbolic="a sequence of 3 operations over {attach to group A, attach to group B, read get_xpath()} (3 symbolic ints) and a 2-character question name",
    bounds="history length 3; two candidate parents",
    weight=40,
)
def c02_reparent(o0: int, o1: int, o2: int, n0: int, n1: int) -> bool:
    """
    pre: 0 <= o0 <= 2 and 0 <= o1 <= 2 and 0 <= o2 <= 2
    pre: 97 <= n0 <= 122 and 97 <= n1 <= 122
    post: _ == True
    """
    N = S(n0, n1)
    s = Survey(name="data", id_string="x", title="x")
    ga = GroupedSection(name="ga", type="group", label="L")
    gb = GroupedSection(name="gb", type="group", label="L")
    s.add_child(ga)
    s.add_child(gb)
    q = InputQuestion(name=N, type="text", label="L")
    ga.add_child(q)
    cur = "ga"
    for o in (o0, o1, o2):
        if o == 0:
            ga.add_child(q)
            cur = "ga"
        elif o == 1:
            gb.add_child(q)
            cur = "gb"
        else:
            q.get_xpath()
    return q.get_xpath() == "/data/" + cur + "/" + N


# ---- f: render / edit / render histories on one Survey object (round 3) ----------------------------------
def c02_render_history(o0: int, o1: int, o2: int, same: bool, n0: int, n1: int) -> bool:
    """
    vpre: 0 <= o0 <= 2 and 0 <= o1 <= 2 and 0 <= o2 <= 2
    vpre: 97 <= n0 <= 122 and 97 <= n1 <= 122
    vpost: _ == True
    """
    N = S(n0, n1)
    s = Survey(name="data", id_string="x", title="x")
    g = GroupedSection(name="gg1", type="group", label="L")
    s.add_child(g)
    g.add_child(InputQuestion(name=N, type="text", label="L"))
    g.add_child(InputQuestion(name="zz1", type="text", label="L"))
    shims.s3_prefill_xpath(s)
    added = 0
    dup = False
    for o in (o0, o1, o2):
        if o == 0:
            # add a question to the group: a second element called N (ambiguous) or a fresh name
            name = N if same else "yy" + str(added)
            if same:
                dup = True
            added += 1
            g.add_child(InputQuestion(name=name, type="text", label="L"))
        else:
            try:
                if o == 1:
                    s.validate()
                root = s.xml()
            except PyXFormError:
                if not dup:
                    return False
                continue
            if dup:
                return False  # two siblings share a name: the form must be rejected, whatever was rendered before
            if M.closure_violation(root) is not None:
                return False
    return True


specialise(
    "C02",
    "f.render-history",
    c02_render_history,
    {"same": [False, True]},
    timeout=400,
    kernel=("pyxform.survey:Survey.xml", "pyxform.survey:Survey.validate", "pyxform.section:Section.validate", "pyxform.section:Section._validate_uniqueness_of_element_names", "pyxform.survey:Survey._setup_xpath_dictionary"),
    shims=("S1", "S2", "S3"),
    symbolic="history of 3 operations over {add a question to the group, validate+render, render}; question name 2 symbolic letters",
    bounds="one Survey object rendered repeatedly; the added question repeats the existing name (fixed per instance) or is fresh; every render must reject an ambiguous sibling pair and otherwise satisfy the closure oracle",
    weight=40,
)
