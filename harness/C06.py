"""C06 — user text is data, never markup."""
from __future__ import annotations

from harness import shims, xmlmodel
from harness.common import S, build_survey, child_elements, elements, text_of, tree
from vf.registry import ob, specialise

import pyxform.parsing.instance_expression as _ie0  # noqa: E402

_IE_FIND_ORIG = _ie0.find_boundaries  # the tree's own boundary finder (before S2/S9), used by h.instance-exprs
shims.standard()
shims.s5_xml_parser()
shims.s9_no_instance_boundaries()
shims.s10_static_defaults()

from pyxform.errors import PyXFormError  # noqa: E402

OUTSIDE = "texts longer than 3 characters per segment (extension rests on the per-character escaping structure shown in C01); labels containing 'instance(' (C lexer); smart quotes and white space (documented normalisations, C13); CR (XML end-of-line normalisation)"
ASSUMPTIONS = [
    "alphabet: contiguous code point ranges inside XML 1.0 Char that contain no white space and no smart quotes (U+0021-U+167F, U+2030-U+2FFF, U+3001-U+D7FF, U+10000-U+10FFFF), minus '$', NEL, NBSP",
    "S5 pure-Python XML parser model in place of expat inside CrossHair (validated against expat on every witness replay); S9 find_boundaries -> [] for texts shorter than 'instance('; S10 default_is_dynamic -> False for the static-default channel (alphabet has no dynamic trigger)",
    "S1-S4 shims inside CrossHair; witnesses re-run without them",
]
K = (
    "pyxform.utils:node",
    "pyxform.utils:DetachableElement.writexml",
    "pyxform.utils:PatchedText.writexml",
    "pyxform.utils:escape_text_for_xml",
    "pyxform.survey:Survey.insert_output_values",
    "pyxform.survey:Survey._var_repl_output_function",
    "pyxform.survey:Survey.itext",
    "pyxform.survey:Survey._generate_static_instances",
    "pyxform.survey_element:SurveyElement.xml_label",
    "pyxform.survey_element:SurveyElement.xml_hint",
    "pyxform.survey_element:SurveyElement.xml_bindings",
    "pyxform.question:Question.xml_instance",
    "pyxform.question:Question._build_xml",
    "pyxform.parsing.instance_expression:replace_with_output",
    "pyxform.xls2json:clean_text_values",
)

Q = {"type": "text", "name": "q1", "label": "L"}
CH = [{"list_name": "l1", "name": "a", "label": "A"}]


def wb_for(ch: int, t: str):
    """-> (workbook, locator) ; locator(root) -> (element, attribute name or None)"""
    if ch == 0:
        return {"survey": [dict(Q, label=t)]}, lambda r: (elements(r, "input")[0].getElementsByTagName("label")[0], None)
    if ch == 1:
        return {"survey": [dict(Q, hint=t)]}, lambda r: (elements(r, "hint")[0], None)
    if ch == 2:
        return {"survey": [{"type": "text", "name": "q1", "label::L1": t}]}, lambda r: (elements(elements(r, "itext")[0], "value")[0], None)
    if ch == 3:
        return {"survey": [dict(Q, guidance_hint=t)]}, lambda r: ([v for v in elements(elements(r, "itext")[0], "value") if v.getAttribute("form") == "guidance"][0], None)
    if ch == 4:
        return {"survey": [dict(Q, constraint=". != 1", constraint_message=t)]}, lambda r: ([b for b in elements(r, "bind") if b.getAttribute("nodeset") == "/data/q1"][0], "jr:constraintMsg")
    if ch == 5:
        return {"survey": [{"type": "select_one l1", "name": "q1", "label": "L"}], "choices": [dict(CH[0], label=t)]}, lambda r: (elements([i for i in elements(r, "instance") if i.getAttribute("id") == "l1"][0], "label")[0], None)
    if ch == 6:
        return {"survey": [{"type": "select_one l1", "name": "q1", "label": "L"}], "choices": [dict(CH[0], xa=t)]}, lambda r: (elements([i for i in elements(r, "instance") if i.getAttribute("id") == "l1"][0], "xa")[0], None)
    if ch == 7:
        return {"survey": [dict(Q, default=t)]}, lambda r: (elements(elements(r, "instance")[0], "q1")[0], None)
    if ch == 8:
        return {"survey": [dict(Q)], "settings": [{"form_title": t}]}, lambda r: (elements(r, "h:title")[0], None)
    if ch == 9:
        return {"survey": [dict(Q)], "settings": [{"version": t}]}, lambda r: (child_elements(elements(r, "instance")[0])[0], "version")
    if ch == 10:
        return {"survey": [dict(Q, appearance=t)]}, lambda r: (elements(r, "input")[0], "appearance")
    if ch == 11:
        return {"survey": [dict(Q, **{"bind::foo": t})]}, lambda r: ([b for b in elements(r, "bind") if b.getAttribute("nodeset") == "/data/q1"][0], "foo")
    if ch == 12:
        return {"survey": [{"type": "begin group", "name": "g", "label": t}, dict(Q), {"type": "end group"}]}, lambda r: (child_elements(elements(r, "group")[0])[0], None)
    if ch == 13:
        return {"survey": [dict(Q, required="yes", required_message=t)]}, lambda r: ([b for b in elements(r, "bind") if b.getAttribute("nodeset") == "/data/q1"][0], "jr:requiredMsg")
    raise ValueError(ch)


CHANNELS = ["label", "hint", "itext label", "guidance hint", "constraint message", "choice label", "choice extra column", "static default", "title", "version", "appearance", "custom bind attribute", "group label", "required message"]


def skeleton(n):
    """element/attribute-name structure, text ignored"""
    return (n.tagName, tuple(sorted(n.attributes.keys())), tuple(skeleton(c) for c in child_elements(n)))


_BASE = {}


def baseline(ch: int):
    if ch not in _BASE:
        wb, _loc = wb_for(ch, "x")
        survey, _w, _js = build_survey(wb)
        _BASE[ch] = skeleton(survey.xml())
    return _BASE[ch]


def channel_ok(ch: int, t: str):
    if ch == 7:
        for c in "*+-|([":
            if c in t:
                return True  # documented dynamic-default trigger characters: not a static default (C10)
    wb, loc = wb_for(ch, t)
    survey, _w, _js = build_survey(wb)
    root = survey.xml()
    if skeleton(root) != baseline(ch):
        return "element/attribute structure depends on the text"
    el, attr = loc(root)
    for ser in (el.toxml(), el.toprettyxml(indent="  ")):
        back = xmlmodel.parse(ser).documentElement
        if attr is None:
            if child_elements(back) or text_of(back) != t:
                return "text not recovered"
        else:
            if back.getAttribute(attr) != t:
                return "attribute value not recovered"
            if sorted(back.attributes.keys()) != sorted(el.attributes.keys()):
                return "attribute set changed"
    return True


# contiguous ranges only (a disjunction in a precondition forks the search per character)
C06_RANGES = {
    "L": (33, 5759),      # ASCII + Latin ... ; excluded below: '$', NEL, NBSP (documented white space)
    "M": (8240, 12287),   # punctuation / symbols after the smart quotes and Unicode spaces
    "H": (12289, 55295),  # CJK etc.
    "A": (65536, 1114111),  # astral planes
}


def c06_channel(ch: int, rp: int, n: int, c0: int, c1: int, c2: int) -> bool:
    """
    vpre: RLO[rp][0] <= c0 <= RLO[rp][1] and 33 <= c1 <= 5759 and 33 <= c2 <= 5759
    vpre: c0 != 36 and c0 != 133 and c0 != 160 and c0 != 8287
    vpre: c1 != 36 and c1 != 133 and c1 != 160
    vpre: c2 != 36 and c2 != 133 and c2 != 160
    vpost: _ == True
    """
    return channel_ok(ch, S(*((c0, c1, c2)[:n])))


RLO = [C06_RANGES["L"], C06_RANGES["M"], C06_RANGES["H"], C06_RANGES["A"]]

specialise(
    "C06",
    "a.channel",
    c06_channel,
    {"ch": list(range(14)), "rp": [0], "n": [2]},
    tiers=("quick", "thorough"),
    timeout=400,
    kernel=K,
    shims=("S1", "S2", "S3", "S4", "S5", "S9", "S10"),
    symbolic="cell text of 2 symbolic code points over U+0021-U+167F minus '$', NEL, NBSP",
    bounds="text length 2; one text channel per instance (label, hint, itext label, guidance, constraint/required message, choice label, choice extra column, static default, title, version, appearance, custom bind attribute, group label)",
    weight=120,
)
specialise(
    "C06",
    "a.channel",
    c06_channel,
    {"ch": [0, 2, 4, 5, 8], "rp": [3], "n": [1]},
    reach_if=lambda fx: False,
    tiers=("quick", "thorough"),
    timeout=300,
    kernel=K,
    shims=("S1", "S2", "S3", "S4", "S5", "S9", "S10"),
    symbolic="cell text of 1 symbolic astral code point (U+10000-U+10FFFF)",
    bounds="text length 1; channels label, itext label, constraint message, choice label, title",
    weight=40,
)
specialise(
    "C06",
    "a.channel",
    c06_channel,
    {"ch": list(range(14)), "rp": [0, 3], "n": [3]},
    reach_if=lambda fx: fx["rp"] == 0 and fx["ch"] == 0,
    tiers=("thorough",),
    timeout=2400,
    kernel=K,
    shims=("S1", "S2", "S3", "S4", "S5", "S9", "S10"),
    symbolic="cell text of 3 symbolic code points; first over the range pattern, the others over U+0021-U+167F",
    bounds="text length 3 (covers ']]>' and '&lt' style sequences); first-character range fixed per instance over U+0021-U+167F / astral",
    weight=1200,
)


def c06_with_ref(ch: int, n1: int, n2: int, a0: int, a1: int, b0: int, b1: int) -> bool:
    """
    vpre: 33 <= a0 <= 126 and a0 != 36 and 33 <= a1 <= 126 and a1 != 36
    vpre: 33 <= b0 <= 126 and b0 != 36 and 33 <= b1 <= 126 and b1 != 36
    vpost: _ == True
    """
    s1 = S(*((a0, a1)[:n1]))
    s2 = S(*((b0, b1)[:n2]))
    t = s1 + "${q0}" + s2
    # element level: workbook_to_json would send a cell containing '${' through the C lexer
    from pyxform.question import InputQuestion
    from pyxform.survey import Survey

    survey = Survey(name="data", id_string="x", title="x")
    survey.add_child(InputQuestion(name="q0", type="text", label="Q0"))
    if ch == 0:
        q1 = InputQuestion(name="q1", type="text", label=t)
    elif ch == 1:
        q1 = InputQuestion(name="q1", type="text", label="L", hint=t)
    else:
        q1 = InputQuestion(name="q1", type="text", label={"L1": t})
    survey.add_child(q1)
    root = survey.xml()
    if ch == 0:
        el = [e for e in elements(root, "input") if e.getAttribute("ref") == "/data/q1"][0].getElementsByTagName("label")[0]
    elif ch == 1:
        el = elements(root, "hint")[0]
    else:
        el = elements(elements(root, "itext")[0], "value")[0]
    want = []
    if n1:
        want.append(s1)
    want.append(("output", (("value", " /data/q0 "),), ()))
    if n2:
        want.append(s2)
    for ser in (el.toxml(), el.toprettyxml(indent="  ")):
        back = xmlmodel.parse(ser).documentElement
        got = [g for g in tree(back)[2] if not (isinstance(g, str) and g.strip() == "")]
        raw = list(tree(back)[2])
        # mixed content is padded with one boundary space by the writer (C15): strip it
        if len(raw) > 1 and isinstance(raw[0], str) and raw[0].strip() != "" and raw[0].startswith(" "):
            got[0] = got[0][1:]
        if len(raw) > 1 and isinstance(raw[-1], str) and raw[-1].strip() != "" and raw[-1].endswith(" "):
            got[-1] = got[-1][:-1]
        if got != want:
            return False
    return True


specialise(
    "C06",
    "f.with-reference",
    c06_with_ref,
    {"ch": [0, 1, 2], "n1": [0, 1], "n2": [0, 1]},
    skip_if=lambda fx: fx["n1"] == 0 and fx["n2"] == 0,
    reach_if=lambda fx: fx["n1"] == 1 and fx["n2"] == 1,
    tiers=("quick", "thorough"),
    timeout=600,
    kernel=K,
    shims=("S1", "S2", "S3", "S4", "S5", "S9"),
    symbolic="text segments s1, s2 (lengths n1, n2 <= 2, printable ASCII minus '$' and space) around one ${q0} reference",
    bounds="channels: inline label, inline hint, itext label; real Survey/InputQuestion objects built directly (the workbook reader would send a cell containing '${' through the C lexer)",
    weight=150,
)
specialise(
    "C06",
    "f.with-reference",
    c06_with_ref,
    {"ch": [0, 1, 2], "n1": [0, 2], "n2": [0, 2]},
    reach_if=lambda fx: False,
    tiers=("thorough",),
    timeout=2400,
    kernel=K,
    shims=("S1", "S2", "S3", "S4", "S5", "S9"),
    symbolic="text segments s1, s2 (lengths n1, n2 <= 2, printable ASCII minus '$' and space) around one ${q0} reference",
    bounds="channels: inline label, inline hint, itext label; real Survey/InputQuestion objects built directly (the workbook reader would send a cell containing '${' through the C lexer)",
    weight=900,
)



ENTITY_LIKE = ["&amp;", "&lt;", "&gt;", "&quot;", "&apos;", "&#38;", "&#x26;", "&nbsp;", "AT&T;"]


def c06_entity_ref(ch: int, ei: int, with_ref: bool, c0: int) -> bool:
    """
    vpre: 0 <= ei <= 8
    vpre: 33 <= c0 <= 126 and c0 != 36
    vpost: _ == True
    """
    e = ENTITY_LIKE[ei]
    t = "a " + e + " b" + (" ${q0}" if with_ref else "")  # concrete: cells holding a reference reach the C lexer
    q0 = {"type": "text", "name": "q0", "label": S(c0, 65)}  # tracer on another row
    if ch == 0:
        wb = {"survey": [q0, dict(Q, label=t)]}
    elif ch == 1:
        wb = {"survey": [q0, dict(Q, hint=t)]}
    elif ch == 2:
        wb = {"survey": [q0, {"type": "text", "name": "q1", "label::L1": t}]}
    else:
        wb = {"survey": [q0, dict(Q, constraint=". != 1", constraint_message=t)]}
    survey, _w, _js = build_survey(wb)
    root = survey.xml()
    if ch == 0:
        el = [x for x in elements(root, "input") if x.getAttribute("ref") == "/data/q1"][0].getElementsByTagName("label")[0]
    elif ch == 1:
        el = elements(root, "hint")[0]
    elif ch == 2:
        el = [v for v in elements(elements(root, "itext")[0], "value")][0]
    else:
        if with_ref:
            el = [v for v in elements(elements(root, "itext")[0], "value")][0]
        else:
            b = [x for x in elements(root, "bind") if x.getAttribute("nodeset") == "/data/q1"][0]
            return xmlmodel.parse(b.toxml()).documentElement.getAttribute("jr:constraintMsg") == t
    back = xmlmodel.parse(el.toxml()).documentElement
    txt = "".join(c if isinstance(c, str) else "" for c in tree(back)[2])
    want = "a " + e + " b"
    if txt.strip() != want:
        return False
    outs = [c for c in child_elements(back) if c.tagName == "output"]
    return len(outs) == (1 if with_ref else 0) and len(child_elements(back)) == len(outs)


specialise(
    "C06",
    "f.entity-like",
    c06_entity_ref,
    {"ch": [0, 1, 2, 3], "with_ref": [False, True]},
    reach_if=lambda fx: fx["ch"] == 0,
    timeout=300,
    kernel=K,
    shims=("S1", "S2", "S3", "S4", "S5", "S9"),
    symbolic="entity-like sequence chosen by a symbolic index from 9 (predefined entities, character references, &nbsp;, AT&T;); tracer character on another row; the cell with the reference is concrete (C lexer)",
    bounds="channel (label, hint, itext label, constraint message) and presence of a ${q0} reference fixed per instance",
    weight=40,
)


# ---- a'': the CDATA-end sequence (needs 3 characters: fixed ']]' + one symbolic) -------------------
def c06_cdata_end(ch: int, c2: int) -> bool:
    """
    vpre: 33 <= c2 <= 126 and c2 != 36
    vpost: _ == True
    """
    return channel_ok(ch, "]]" + S(c2))


specialise(
    "C06",
    "a.cdata-end",
    c06_cdata_end,
    {"ch": list(range(14))},
    reach_if=lambda fx: fx["ch"] == 0,
    timeout=300,
    kernel=K,
    shims=("S1", "S2", "S3", "S4", "S5", "S9", "S10"),
    symbolic="cell text ']]' followed by one symbolic printable ASCII character (covers ']]>', which XML forbids raw in character data)",
    bounds="text length 3 with a fixed 2-character prefix; one text channel per instance",
    weight=40,
)


# ---- g: itext entries next to entries that hold a reference (order / history inside Survey.itext) ----
def c06_itext_neighbour(ch: int, ref_before: bool, n: int, c0: int, c1: int) -> bool:
    """
    vpre: 33 <= c0 <= 126 and c0 != 36 and 33 <= c1 <= 126 and c1 != 36
    vpost: _ == True
    """
    t = S(*((c0, c1)[:n]))
    refd = "R ${q0} r"  # concrete: cells holding a reference reach the C lexer
    q0 = {"type": "text", "name": "q0", "label": "Q0"}
    a = {"list_name": "l1", "name": "a", "label::L1": refd if ref_before else "A"}
    b = {"list_name": "l1", "name": "b", "label::L1": "B"}
    qa = {"type": "text", "name": "qa", "label::L1": refd if ref_before else "QA"}
    sel = {"type": "select_one l1", "name": "s1", "label::L1": "S"}
    q1 = {"type": "text", "name": "q1", "label::L1": "Q1"}
    if ch == 0:  # choice label after a sibling choice whose label holds a reference
        b["label::L1"] = t
        tid = "l1-1"
    elif ch == 1:  # question label after a question whose label holds a reference
        q1["label::L1"] = t
        tid = "/data/q1:label"
    elif ch == 2:  # hint
        q1["hint::L1"] = t
        tid = "/data/q1:hint"
    else:  # choice label in a second language: entries of the first language come before
        b["label::L1"] = "B"
        b["label::L2"] = t
        a["label::L2"] = "A2"
        tid = "l1-1"
    wb = {"survey": [q0, qa, sel, q1], "choices": [a, b]}
    survey, _w, _js = build_survey(wb)
    root = survey.xml()
    lang = "L2" if ch == 3 else "L1"
    tr = [x for x in elements(root, "translation") if x.getAttribute("lang") == lang][0]
    tx = [x for x in child_elements(tr) if x.getAttribute("id") == tid]
    if len(tx) != 1:
        return False
    vals = [v for v in child_elements(tx[0]) if not v.hasAttribute("form")]
    if len(vals) != 1:
        return False
    for ser in (vals[0].toxml(), vals[0].toprettyxml(indent="  ")):
        back = xmlmodel.parse(ser).documentElement
        if child_elements(back) or text_of(back) != t:
            return False
    return True


specialise(
    "C06",
    "g.itext-neighbour",
    c06_itext_neighbour,
    {"ch": [0, 1, 2, 3], "n": [1, 2]},
    reach_if=lambda fx: fx["n"] == 1,
    timeout=400,
    kernel=K,
    shims=("S1", "S2", "S3", "S4", "S5", "S9"),
    symbolic="itext entry text of n symbolic printable ASCII characters; whether the entry written just before it (sibling choice / previous question) holds a ${reference} (boolean)",
    bounds="n fixed per instance (1-2); channels: choice label, question label, hint, second-language choice label; one form with a dynamic choice list",
    weight=80,
)


# ---- h: texts with several instance() expressions, used more than once (round 3) ----------------------------
E1X = "instance('l1')/root/item[name='a']/label"
E2X = "instance('l1')/root/item[name='b']/label"


def c06_instance_exprs(where: int, n_expr: int, l0: int) -> bool:
    """
    vpre: 1 <= n_expr <= 3
    vpre: 97 <= l0 <= 122
    vpost: _ == True
    """
    import pyxform.parsing.instance_expression as ie

    # the text that holds the expressions is concrete (the boundary finder runs the C lexer); a tracer rides next to it
    exprs = [E1X, E2X, E1X][:n_expr]
    words = ["Xa went on and picked ", " Yb went on and picked ", " Zc went on and picked "]
    text = "".join(words[i] + exprs[i] for i in range(n_expr)) + " end"
    q1 = {"type": "select_one l1", "name": "s", "label": S(l0, 83)}
    n = {"type": "note", "name": "t"}
    if where == 0:  # same text as label and hint
        n["label"] = text
        n["hint"] = text
    elif where == 1:  # same text in two languages
        n["label::L1"] = text
        n["label::L2"] = text
    else:  # same text on two questions
        n["label"] = text
    rows = [q1, n]
    if where == 2:
        rows.append({"type": "note", "name": "u", "label": text})
    fb = _IE_FIND_ORIG
    if shims.SYMBOLIC and hasattr(fb, "cache_info"):
        fb = shims._PyMemo(fb.__wrapped__, 128)  # S12: CrossHair would call an lru_cache wrapper without its cache
    saved = ie.find_boundaries
    ie.find_boundaries = fb
    try:
        survey, _w, _js = build_survey({"survey": rows, "choices": [{"list_name": "l1", "name": "a", "label": "A"}, {"list_name": "l1", "name": "b", "label": "B"}]})
        root = survey.xml()
    finally:
        ie.find_boundaries = saved
    # every element that carries the text: children alternate words / <output value=expr>
    carriers = [e for e in elements(root) if e.tagName in ("label", "hint", "value") and len(elements(e, "output")) > 0]
    want_n = {0: 2, 1: 2, 2: 2}[where]
    if len(carriers) != want_n:
        return False
    for e in carriers:
        outs = [c for c in child_elements(e) if c.tagName == "output"]
        if [o.getAttribute("value").strip() for o in outs] != exprs:
            return False
        if text_of(e).replace(" ", "") != ("".join(words[:n_expr]) + " end").replace(" ", ""):
            return False
    return True


specialise(
    "C06",
    "h.instance-exprs",
    c06_instance_exprs,
    {"where": [0, 1, 2]},
    timeout=300,
    kernel=("pyxform.parsing.instance_expression:find_boundaries", "pyxform.parsing.instance_expression:replace_with_output", "pyxform.survey:Survey.insert_output_values"),
    shims=("S1", "S2", "S4", "S5", "S12 (find_boundaries only, when the tree memoises it)"),
    symbolic="number of instance() expressions in the text (1-3), tracer character on a neighbouring label",
    bounds="the same authored text used twice in one form (label+hint / two languages / two questions, fixed per instance): every use yields the authored words as text and each expression as one output element, in order",
    weight=30,
)
