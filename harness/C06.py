"""C06 — user text is data, never markup."""
from __future__ import annotations

from harness import shims, xmlmodel
from harness.common import S, build_survey, child_elements, elements, text_of, tree
from vf.registry import ob, specialise

shims.standard()
shims.s5_xml_parser()
shims.s9_no_instance_boundaries()
shims.s10_static_defaults()

from pyxform.errors import PyXFormError  # noqa: E402

OUTSIDE = "texts longer than 3 characters per segment (extension rests on the per-character escaping structure shown in C01); labels containing 'instance(' (C lexer); smart quotes and white space (documented normalisations, C13); CR (XML end-of-line normalisation)"
ASSUMPTIONS = [
    "alphabet: XML 1.0 Char minus white space, '$', U+2018/2019/201C/201D (documented smart-quote normalisation)",
    "S5 pure-Python XML parser model in place of expat inside CrossHair (validated against expat on every witness replay); S9 find_boundaries -> [] for texts shorter than 'instance('; S10 default_is_dynamic -> False for the static-default channel (alphabet has no dynamic trigger)",
    "S1-S4 shims inside CrossHair; witnesses re-run without them",
]
K = (
    "pyxform.utils:node",
    "pyxform.utils:DetachableElement.writexml",
    "pyxform.utils:PatchedText.writexml",
    "pyxform.utils:escape_text_for_xml",
    "pyxform.survey:Survey.insert_output_values",
    "pyxform.survey:Survey._var_repl_output_function",
    "pyxform.survey:Survey.itext",
    "pyxform.survey:Survey._generate_static_instances",
    "pyxform.survey_element:SurveyElement.xml_label",
    "pyxform.survey_element:SurveyElement.xml_hint",
    "pyxform.survey_element:SurveyElement.xml_bindings",
    "pyxform.question:Question.xml_instance",
    "pyxform.question:Question._build_xml",
    "pyxform.parsing.instance_expression:replace_with_output",
    "pyxform.xls2json:clean_text_values",
)

Q = {"type": "text", "name": "q1", "label": "L"}
CH = [{"list_name": "l1", "name": "a", "label": "A"}]


def wb_for(ch: int, t: str):
    """-> (workbook, locator) ; locator(root) -> (element, attribute name or None)"""
    if ch == 0:
        return {"survey": [dict(Q, label=t)]}, lambda r: (elements(r, "input")[0].getElementsByTagName("label")[0], None)
    if ch == 1:
        return {"survey": [dict(Q, hint=t)]}, lambda r: (elements(r, "hint")[0], None)
    if ch == 2:
        return {"survey": [{"type": "text", "name": "q1", "label::L1": t}]}, lambda r: (elements(elements(r, "itext")[0], "value")[0], None)
    if ch == 3:
        return {"survey": [dict(Q, guidance_hint=t)]}, lambda r: ([v for v in elements(elements(r, "itext")[0], "value") if v.getAttribute("form") == "guidance"][0], None)
    if ch == 4:
        return {"survey": [dict(Q, constraint=". != 1", constraint_message=t)]}, lambda r: ([b for b in elements(r, "bind") if b.getAttribute("nodeset") == "/data/q1"][0], "jr:constraintMsg")
    if ch == 5:
        return {"survey": [{"type": "select_one l1", "name": "q1", "label": "L"}], "choices": [dict(CH[0], label=t)]}, lambda r: (elements([i for i in elements(r, "instance") if i.getAttribute("id") == "l1"][0], "label")[0], None)
    if ch == 6:
        return {"survey": [{"type": "select_one l1", "name": "q1", "label": "L"}], "choices": [dict(CH[0], xa=t)]}, lambda r: (elements([i for i in elements(r, "instance") if i.getAttribute("id") == "l1"][0], "xa")[0], None)
    if ch == 7:
        return {"survey": [dict(Q, default=t)]}, lambda r: (elements(elements(r, "instance")[0], "q1")[0], None)
    if ch == 8:
        return {"survey": [dict(Q)], "settings": [{"form_title": t}]}, lambda r: (elements(r, "h:title")[0], None)
    if ch == 9:
        return {"survey": [dict(Q)], "settings": [{"version": t}]}, lambda r: (child_elements(elements(r, "instance")[0])[0], "version")
    if ch == 10:
        return {"survey": [dict(Q, appearance=t)]}, lambda r: (elements(r, "input")[0], "appearance")
    if ch == 11:
        return {"survey": [dict(Q, **{"bind::foo": t})]}, lambda r: ([b for b in elements(r, "bind") if b.getAttribute("nodeset") == "/data/q1"][0], "foo")
    if ch == 12:
        return {"survey": [{"type": "begin group", "name": "g", "label": t}, dict(Q), {"type": "end group"}]}, lambda r: (child_elements(elements(r, "group")[0])[0], None)
    if ch == 13:
        return {"survey": [dict(Q, required="yes", required_message=t)]}, lambda r: ([b for b in elements(r, "bind") if b.getAttribute("nodeset") == "/data/q1"][0], "jr:requiredMsg")
    raise ValueError(ch)


CHANNELS = ["label", "hint", "itext label", "guidance hint", "constraint message", "choice label", "choice extra column", "static default", "title", "version", "appearance", "custom bind attribute", "group label", "required message"]


def skeleton(n):
    """element/attribute-name structure, text ignored"""
    return (n.tagName, tuple(sorted(n.attributes.keys())), tuple(skeleton(c) for c in child_elements(n)))


_BASE = {}


def baseline(ch: int):
    if ch not in _BASE:
        wb, _loc = wb_for(ch, "x")
        survey, _w, _js = build_survey(wb)
        _BASE[ch] = skeleton(survey.xml())
    return _BASE[ch]


def channel_ok(ch: int, t: str):
    if ch == 7:
        for c in "*+-|([":
            if c in t:
                return True  # documented dynamic-default trigger characters: not a static default (C10)
    wb, loc = wb_for(ch, t)
    survey, _w, _js = build_survey(wb)
    root = survey.xml()
    if skeleton(root) != baseline(ch):
        return "element/attribute structure depends on the text"
    el, attr = loc(root)
    for ser in (el.toxml(), el.toprettyxml(indent="  ")):
        back = xmlmodel.parse(ser).documentElement
        if attr is None:
            if child_elements(back) or text_of(back) != t:
                return "text not recovered"
        else:
            if back.getAttribute(attr) != t:
                return "attribute value not recovered"
            if sorted(back.attributes.keys()) != sorted(el.attributes.keys()):
                return "attribute set changed"
    return True


_CH = "(c{i} == 33 or c{i} == 35 or 37 <= c{i} <= 8215 or 8218 <= c{i} <= 8219 or 8222 <= c{i} <= 55295 or 57344 <= c{i} <= 65533 or 65536 <= c{i} <= 1114111) and c{i} != 133 and c{i} != 160 and c{i} != 5760 and not (8192 <= c{i} <= 8202) and c{i} != 8232 and c{i} != 8233 and c{i} != 8239 and c{i} != 8287 and c{i} != 12288"
# 34 (") is re-admitted separately below; 36 ($) excluded


def c06_channel(ch: int, n: int, c0: int, c1: int, c2: int) -> bool:
    """
    vpre: (c0 == 33 or c0 == 34 or c0 == 35 or 37 <= c0 <= 8215 or 8218 <= c0 <= 8219 or 8222 <= c0 <= 55295 or 57344 <= c0 <= 65533 or 65536 <= c0 <= 1114111) and c0 != 133 and c0 != 160 and c0 != 5760 and not (8192 <= c0 <= 8202) and c0 != 8232 and c0 != 8233 and c0 != 8239 and c0 != 8287 and c0 != 12288
    vpre: (c1 == 33 or c1 == 34 or c1 == 35 or 37 <= c1 <= 8215 or 8218 <= c1 <= 8219 or 8222 <= c1 <= 55295 or 57344 <= c1 <= 65533 or 65536 <= c1 <= 1114111) and c1 != 133 and c1 != 160 and c1 != 5760 and not (8192 <= c1 <= 8202) and c1 != 8232 and c1 != 8233 and c1 != 8239 and c1 != 8287 and c1 != 12288
    vpre: (c2 == 33 or c2 == 34 or c2 == 35 or 37 <= c2 <= 8215 or 8218 <= c2 <= 8219 or 8222 <= c2 <= 55295 or 57344 <= c2 <= 65533 or 65536 <= c2 <= 1114111) and c2 != 133 and c2 != 160 and c2 != 5760 and not (8192 <= c2 <= 8202) and c2 != 8232 and c2 != 8233 and c2 != 8239 and c2 != 8287 and c2 != 12288
    vpost: _ == True
    """
    return channel_ok(ch, S(*((c0, c1, c2)[:n])))


specialise(
    "C06",
    "a.channel",
    c06_channel,
    {"ch": list(range(14)), "n": [2]},
    tiers=("quick", "thorough"),
    timeout=400,
    kernel=K,
    shims=("S1", "S2", "S3", "S4", "S5", "S9", "S10"),
    symbolic="cell text of n symbolic code points over XML Char minus white space, '$' and smart quotes",
    bounds="text length fixed per instance; one text channel per instance (label, hint, itext label, guidance, constraint/required message, choice label, choice extra column, static default, title, version, appearance, custom bind attribute, group label)",
    weight=120,
)
specialise(
    "C06",
    "a.channel",
    c06_channel,
    {"ch": list(range(14)), "n": [3]},
    tiers=("thorough",),
    timeout=1500,
    kernel=K,
    shims=("S1", "S2", "S3", "S4", "S5", "S9", "S10"),
    symbolic="cell text of n symbolic code points over XML Char minus white space, '$' and smart quotes",
    bounds="text length 3 (covers ']]>' and '&lt' style sequences)",
    weight=900,
)


def c06_with_ref(ch: int, n1: int, n2: int, a0: int, a1: int, b0: int, b1: int) -> bool:
    """
    vpre: (a0 == 33 or a0 == 34 or a0 == 35 or 37 <= a0 <= 126) and (a1 == 33 or a1 == 34 or a1 == 35 or 37 <= a1 <= 126)
    vpre: (b0 == 33 or b0 == 34 or b0 == 35 or 37 <= b0 <= 126) and (b1 == 33 or b1 == 34 or b1 == 35 or 37 <= b1 <= 126)
    vpost: _ == True
    """
    s1 = S(*((a0, a1)[:n1]))
    s2 = S(*((b0, b1)[:n2]))
    t = s1 + "${q0}" + s2
    q0 = {"type": "text", "name": "q0", "label": "Q0"}
    if ch == 0:
        wb = {"survey": [q0, dict(Q, label=t)]}
    elif ch == 1:
        wb = {"survey": [q0, dict(Q, hint=t)]}
    else:
        wb = {"survey": [q0, {"type": "text", "name": "q1", "label::L1": t}]}
    survey, _w, _js = build_survey(wb)
    root = survey.xml()
    if ch == 0:
        el = [e for e in elements(root, "input") if e.getAttribute("ref") == "/data/q1"][0].getElementsByTagName("label")[0]
    elif ch == 1:
        el = elements(root, "hint")[0]
    else:
        el = elements(elements(root, "itext")[0], "value")[0]
    want = []
    if n1:
        want.append(s1)
    want.append(("output", (("value", " /data/q0 "),), ()))
    if n2:
        want.append(s2)
    for ser in (el.toxml(), el.toprettyxml(indent="  ")):
        back = xmlmodel.parse(ser).documentElement
        got = [g for g in tree(back)[2] if not (isinstance(g, str) and g.strip() == "")]
        raw = list(tree(back)[2])
        # mixed content is padded with one boundary space by the writer (C15): strip it
        if len(raw) > 1 and isinstance(raw[0], str) and raw[0].strip() != "" and raw[0].startswith(" "):
            got[0] = got[0][1:]
        if len(raw) > 1 and isinstance(raw[-1], str) and raw[-1].strip() != "" and raw[-1].endswith(" "):
            got[-1] = got[-1][:-1]
        if got != want:
            return False
    return True


specialise(
    "C06",
    "f.with-reference",
    c06_with_ref,
    {"ch": [0, 1, 2], "n1": [0, 1, 2], "n2": [0, 1, 2]},
    reach_if=lambda fx: fx["n1"] == 1 and fx["n2"] == 1,
    tiers=("quick", "thorough"),
    timeout=600,
    kernel=K,
    shims=("S1", "S2", "S3", "S4", "S5", "S9"),
    symbolic="text segments s1, s2 (lengths n1, n2 <= 2, printable ASCII minus '$' and space) around one ${q0} reference",
    bounds="channels: inline label, inline hint, itext label; escaped text shorter than 'instance('",
    weight=150,
)
