"""C13 — documented spellings and layout noise are interchangeable."""
from __future__ import annotations

from harness import shims
from harness.common import S, build_survey, tree
from vf.registry import ob, specialise

shims.standard()

from pyxform import aliases  # noqa: E402
from pyxform.errors import PyXFormError  # noqa: E402
from pyxform.parsing.sheet_headers import process_header  # noqa: E402
from pyxform.question import MultipleChoiceQuestion, Option  # noqa: E402
from pyxform.survey import Survey  # noqa: E402
from pyxform.xls2json import clean_text_values  # noqa: E402

OUTSIDE = "whole-form equivalence under arbitrary compositions of transformations on arbitrary forms: each transformation is decided at the unit through which it acts, and on one representative form for layout noise; sheet-name case (readers, C12)"
ASSUMPTIONS = [
    "documented alias pairs come from spec/tables.py (XLSForm documentation), not from pyxform.aliases",
    "S1-S4 shims inside CrossHair; witnesses re-run without them",
]
K = (
    "pyxform.parsing.sheet_headers:process_header",
    "pyxform.parsing.sheet_headers:to_snake_case",
    "pyxform.parsing.sheet_headers:dealias_and_group_headers",
    "pyxform.xls2json:clean_text_values",
    "pyxform.xls2json:dealias_types",
    "pyxform.xls2json:workbook_to_json",
)

_SURVEY_COLS = set(MultipleChoiceQuestion.get_slot_names())
_CHOICE_COLS = set(Option.get_slot_names())
_SETTINGS_COLS = set(Survey.get_slot_names())

# (sheet, canonical spelling, variant spelling): documented equivalents
ALIAS_PAIRS = [
    ("survey", "relevant", "relevance"),
    ("survey", "calculation", "calculate"),
    ("survey", "label", "caption"),
    ("survey", "media::image", "image"),
    ("survey", "read_only", "readonly"),
    ("survey", "read_only", "read only"),
    ("survey", "constraint_message", "constraint message"),
    ("survey", "repeat_count", "repeat count"),
    ("survey", "required_message", "required message"),
    ("choices", "list_name", "list name"),
    ("choices", "label", "caption"),
    ("settings", "form_id", "id_string"),
    ("settings", "form_title", "title"),
]


def _ctx(sheet):
    if sheet == "survey":
        return aliases.survey_header, _SURVEY_COLS
    if sheet == "choices":
        return aliases.list_header, _CHOICE_COLS
    return aliases.settings_header, _SETTINGS_COLS


def c13_headers(pair: int, with_lang: bool, up0: bool, up1: bool, up2: bool, lead: bool, trail: bool, dsp0: bool, dsp1: bool, t0: int, t1: int) -> bool:
    """
    vpre: 97 <= t0 <= 122 and 65 <= t1 <= 122
    vpost: _ == True
    """
    sheet, canon, variant = ALIAS_PAIRS[pair]
    al, cols = _ctx(sheet)
    lang = S(t0, t1)
    # case noise on the first three characters of the variant spelling
    v = ""
    ups = (up0, up1, up2)
    for i, ch in enumerate(variant):
        v = v + (ch.upper() if i < 3 and ups[i] else ch)
    if lead:
        v = "  " + v
    if trail:
        v = v + " "
    if with_lang:
        if sheet == "settings":
            return True
        canon_h = canon + "::" + lang
        # optional spaces around the language delimiter (documented)
        var_h = v + (" " if dsp0 else "") + "::" + (" " if dsp1 else "") + lang
    else:
        canon_h, var_h = canon, v
    _n1, tok1 = process_header(header=canon_h, use_double_colon=True, header_aliases=al, header_columns=cols)
    _n2, tok2 = process_header(header=var_h, use_double_colon=True, header_aliases=al, header_columns=cols)
    return tok1 == tok2


specialise(
    "C13",
    "a.headers",
    c13_headers,
    {"pair": list(range(len(ALIAS_PAIRS))), "with_lang": [False]},
    timeout=500,
    kernel=K[:2],
    shims=(),
    symbolic="upper/lower case of the first three characters, leading/trailing spaces, spaces before/after the language delimiter, language suffix present (8 symbolic booleans), 2-character symbolic language token",
    bounds="one documented alias pair per instance",
    weight=40,
)
specialise(
    "C13",
    "a.headers",
    c13_headers,
    {"pair": [p for p in range(len(ALIAS_PAIRS)) if ALIAS_PAIRS[p][0] != "settings"], "with_lang": [True], "up1": [False], "up2": [False], "lead": [False]},
    reach_if=lambda fx: False,
    timeout=500,
    kernel=K[:2],
    shims=(),
    symbolic="upper/lower case of the first three characters, leading/trailing spaces, spaces before/after the language delimiter, language suffix present (8 symbolic booleans), 2-character symbolic language token",
    bounds="one documented alias pair per instance",
    weight=40,
)

SELECT_SPELLINGS = ["select_one", "select one", "select1", "select one from", "add select one prompt using"]
MULTI_SPELLINGS = ["select_multiple", "select all that apply", "select all that apply from", "add select multiple prompt using"]
GROUP_SPELLINGS = [("begin group", "end group"), ("begin_group", "end_group"), ("begin group", "end_group")]
REPEAT_SPELLINGS = [("begin repeat", "end repeat"), ("begin_repeat", "end_repeat"), ("begin lgroup", "end lgroup"), ("begin looped group", "end looped group")]
OTHER_SPELLINGS = [" or_other", " or other", " or specify other"]
TYPE_ALIASES = [("integer", "int"), ("photo", "image"), ("text", "string"), ("deviceid", "imei"), ("select_one l1", "select1 l1")]


def _form(sel: str, multi: str, grp, rep, other: str, int_t: str, lab: str):
    return {
        "survey": [
            {"type": sel + " l1" + other, "name": "q1", "label": lab},
            {"type": grp[0], "name": "g", "label": "G"},
            {"type": multi + " l1", "name": "q2", "label": "Q2"},
            {"type": grp[1]},
            {"type": rep[0], "name": "r", "label": "R"},
            {"type": int_t, "name": "q3", "label": "Q3"},
            {"type": rep[1]},
        ],
        "choices": [{"list_name": "l1", "name": "a", "label": "A"}, {"list_name": "l1", "name": "b", "label": "B"}],
    }


def c13_types(fam: int, idx: int, oi: int, l0: int) -> bool:
    """
    vpre: 0 <= idx <= 4 and 0 <= oi <= 3
    vpre: 97 <= l0 <= 122
    vpost: _ == True
    """
    lab = S(l0, 66)
    other0 = "" if oi == 0 else OTHER_SPELLINGS[0]
    other = "" if oi == 0 else OTHER_SPELLINGS[oi - 1]
    sel, mul, grp, rep, it = SELECT_SPELLINGS[0], MULTI_SPELLINGS[0], GROUP_SPELLINGS[0], REPEAT_SPELLINGS[0], "integer"
    if fam == 0:
        sel = SELECT_SPELLINGS[idx % len(SELECT_SPELLINGS)]
    elif fam == 1:
        mul = MULTI_SPELLINGS[idx % len(MULTI_SPELLINGS)]
    elif fam == 2:
        grp = GROUP_SPELLINGS[idx % len(GROUP_SPELLINGS)]
    elif fam == 3:
        rep = REPEAT_SPELLINGS[idx % len(REPEAT_SPELLINGS)]
    elif fam == 4:
        it = ["integer", "int"][idx % 2]
    else:  # every family at its last spelling together
        sel, mul, grp, rep, it = SELECT_SPELLINGS[-1], MULTI_SPELLINGS[-1], GROUP_SPELLINGS[-1], REPEAT_SPELLINGS[-1], "int"
    base = _form(SELECT_SPELLINGS[0], MULTI_SPELLINGS[0], GROUP_SPELLINGS[0], REPEAT_SPELLINGS[0], other0, "integer", lab)
    var = _form(sel, mul, grp, rep, other, it, lab)
    s1, w1, _j1 = build_survey(base)
    s2, w2, _j2 = build_survey(var)
    return tree(s1.xml()) == tree(s2.xml()) and w1 == w2


specialise(
    "C13",
    "b.types",
    c13_types,
    {"fam": [0, 1, 2, 3, 4, 5]},
    timeout=500,
    kernel=K[4:],
    shims=("S1", "S2", "S3", "S4"),
    symbolic="spelling index within the varied family (0..4), or_other spelling index (0..3), symbolic label character",
    bounds="7-row form using every aliased type family once; the varied family is fixed per instance (select_one, select_multiple, group, repeat, integer, all together)",
    weight=150,
)


def c13_cell_noise(n: int, lead: int, trail: int, dbl: bool, c0: int, c1: int, c2: int) -> bool:
    """
    vpre: 0 <= lead <= 2 and 0 <= trail <= 2
    vpre: 33 <= c0 <= 126 and c0 != 36 and 33 <= c1 <= 126 and c1 != 36 and 33 <= c2 <= 126 and c2 != 36
    vpost: _ == True
    """
    cs = (c0, c1, c2)[:n]
    s = S(*cs)
    # variant: surrounding spaces, doubled inner space between characters, smart quotes for straight ones
    inner = ("  " if dbl else " ")
    plain = " ".join(S(c) for c in cs)
    noisy = " " * lead + inner.join({39: "’", 34: "“"}.get(c, S(c)) if isinstance(c, int) and c in (34, 39) else S(c) for c in cs) + " " * trail
    a = clean_text_values("survey", [{"label": plain}], strip_whitespace=True)[0]["label"]
    b = clean_text_values("survey", [{"label": noisy}], strip_whitespace=True)[0]["label"]
    if a != b:
        return False
    again = clean_text_values("survey", [{"label": a}], strip_whitespace=True)[0]["label"]
    return again == a


specialise(
    "C13",
    "d.cell-noise",
    c13_cell_noise,
    {"n": [1, 2]},
    timeout=400,
    kernel=(K[3],),
    shims=(),
    symbolic="cell of n symbolic printable characters separated by single spaces; 0-2 leading/trailing spaces, doubled inner spaces (boolean), smart quotes substituted for straight quotes",
    bounds="n in 1..2 (quick); n = 3 thorough",
    weight=60,
)
specialise(
    "C13",
    "d.cell-noise",
    c13_cell_noise,
    {"n": [3]},
    tiers=("thorough",),
    timeout=2400,
    kernel=(K[3],),
    shims=(),
    symbolic="cell of 3 symbolic printable characters separated by single spaces; spaces/quotes noise",
    bounds="n = 3",
    weight=1200,
)

PERMS = [(0, 1, 2, 3), (3, 2, 1, 0), (1, 0, 3, 2), (2, 3, 0, 1), (0, 2, 1, 3), (3, 0, 1, 2)]
COLS = ["type", "name", "label", "relevant"]


def c13_layout(perm: int, extra_col: bool, blank_at: int, n_blank: int, c_blank: int, sheet_swap: bool, l0: int, l1: int) -> bool:
    """
    vpre: 0 <= blank_at <= 3
    vpre: 97 <= l0 <= 122 and 97 <= l1 <= 122
    vpost: _ == True
    """
    lab = S(l0, l1)
    rows = [
        {"type": "begin group", "name": "g"},
        {"type": "select_one l1", "name": "q1", "label": lab, "relevant": "1=1"},
        {"type": "end group"},
        {"type": "image", "name": "q2", "label": "I"},
    ]
    ch = [{"list_name": "l1", "name": "a", "label": "A"}, {"list_name": "l1", "name": "b"}]
    base = {"survey": rows, "choices": ch}
    s1, w1, _j = build_survey(base)

    def reorder(r):
        out = {}
        for i in PERMS[perm]:
            k = COLS[i]
            if k in r:
                out[k] = r[k]
        if extra_col and r:
            out["my notes"] = "n"
        return out

    rows2 = [reorder(r) for r in rows]
    rows2 = rows2[:blank_at] + [{} for _ in range(n_blank)] + rows2[blank_at:]
    ch2 = [{} for _ in range(c_blank)] + [dict(c) for c in ch]
    var = {}
    if sheet_swap:
        var["choices"] = ch2
        var["survey"] = rows2
        var["_notes"] = [{"a": "b"}]
    else:
        var["survey"] = rows2
        var["choices"] = ch2
    var_wb = {k: v for k, v in var.items() if not k.startswith("_")}
    var_wb["sheet_names"] = list(var.keys())
    s2, w2, _j2 = build_survey(var_wb)
    if tree(s1.xml()) != tree(s2.xml()):
        return False
    # warnings: same kinds and subjects; row numbers shift by the rows inserted above
    if len(w1) != len(w2):
        return False
    for a, b in zip(w1, w2):
        expected = a
        for r in range(2, 6):
            tag = "[row : " + str(r) + "]"
            if a.startswith(tag):
                if "'choices' sheet" in a:
                    shift = c_blank
                else:
                    shift = n_blank if blank_at <= r - 2 else 0
                expected = "[row : " + str(r + shift) + "]" + a[len(tag):]
        if b != expected:
            return False
    return True


specialise(
    "C13",
    "e.layout",
    c13_layout,
    {"perm": [1, 3, 5], "n_blank": [0, 2], "c_blank": [0, 1]},
    reach_if=lambda fx: fx["n_blank"] == 0 and fx["c_blank"] == 0,
    timeout=500,
    kernel=K[2:],
    shims=("S1", "S2", "S3", "S4"),
    symbolic="blank-row insertion index (0..3) and count (0..2) in the survey sheet, blank rows on top of the choices sheet (0..2), unknown plain column present (boolean), sheet order swapped + underscore sheet added (boolean), 2-character label tracer",
    bounds="column permutation (3 of 6 in quick), survey blank-row count and choices blank-row count fixed per instance; 4-row survey with an unlabeled group and an image without max-pixels (two row-numbered warnings) and a choice without label",
    weight=150,
)


# ---- a': header spelling x column order, through the real row grouping --------------------------------
PLAIN_SPELLINGS = {
    "label": ["label", "Label", " label", "caption", "LABEL "],
    "hint": ["hint", "Hint", " hint", "HINT", "hint "],
}


def c13_header_rows(col: str, sp: int, plain_first: bool, two_langs: bool, a0: int, b0: int) -> bool:
    """
    vpre: 0 <= sp <= 4
    vpre: 33 <= a0 <= 126 and a0 != 36 and 33 <= b0 <= 126 and b0 != 36
    vpost: _ == True
    """
    from pyxform.parsing.sheet_headers import dealias_and_group_headers

    A, B = S(a0, 49), S(b0, 50)

    def run(plain_h, first):
        cells = [(plain_h, A), (col + "::L1", B)]
        if two_langs:
            cells.append((col + "::L2", B + "2"))
        if not first:
            cells.reverse()
        row = {"type": "text", "name": "q1"}
        for k, v in cells:
            row[k] = v
        hdr = [{k: None for k in row}]
        r = dealias_and_group_headers(sheet_name="survey", sheet_data=[row], sheet_header=hdr, header_aliases=aliases.survey_header, header_columns=_SURVEY_COLS, headers_required={"type"})
        return r.data[0]

    want = run(col, True)  # canonical spelling, plain column first
    got = run(PLAIN_SPELLINGS[col][sp], plain_first)
    if got != want:
        return False
    # and the reference itself is the documented grouping: every cell under its language
    exp = {"default": A, "L1": B}
    if two_langs:
        exp["L2"] = B + "2"
    return want.get(col) == exp


specialise(
    "C13",
    "a.header-rows",
    c13_header_rows,
    {"col": ["label", "hint"]},
    timeout=300,
    kernel=K[:3] + ("pyxform.parsing.sheet_headers:process_row", "pyxform.parsing.sheet_headers:merge_dicts"),
    shims=(),
    symbolic="spelling of the unsuffixed column chosen by a symbolic index over 5 documented variants (case, spaces, alias), its position before or after the translated sibling columns (boolean), one or two translated siblings (boolean), two symbolic cell characters",
    bounds="one survey row, column family fixed per instance (label, hint; message columns in both orders are C05.f); the grouped row must equal the canonical spelling in canonical order and hold every cell under its language",
    weight=40,
)


# ---- f: truth spellings of yes/no settings (round 3) ----------------------------------------------------
TRUE_SP = ["yes", "Yes", "YES", "true", "True", "TRUE", "true()"]
FALSE_SP = ["no", "No", "NO", "false", "False", "FALSE", "false()"]
YN_SETTINGS = ["allow_choice_duplicates", "omit_instanceID", "clean_text_values"]


def c13_setting_truth(setting: int, truth: bool, sp: int, c0: int) -> bool:
    """
    vpre: 0 <= sp <= 6
    vpre: 97 <= c0 <= 122
    vpost: _ == True
    """
    from harness.common import build_survey, tree

    key = YN_SETTINGS[setting]

    def run(val):
        rows = [{"type": "text", "name": "q1", "label": S(c0) + "  x"}, {"type": "select_one l1", "name": "q2", "label": "Q2"}]
        ch = [{"list_name": "l1", "name": "a", "label": "A"}, {"list_name": "l1", "name": "a" if setting == 0 else "b", "label": "B"}]
        try:
            survey, w, _js = build_survey({"survey": rows, "choices": ch, "settings": [{key: val}]})
            return ("ok", tree(survey.xml()), [str(x) for x in w])
        except PyXFormError as e:
            return ("error", str(e))

    canonical = run("yes" if truth else "no")
    other = run((TRUE_SP if truth else FALSE_SP)[sp])
    return canonical == other


specialise(
    "C13",
    "f.setting-truth",
    c13_setting_truth,
    {"setting": [0, 1, 2], "truth": [False, True]},
    timeout=300,
    kernel=("pyxform.xls2json:workbook_to_json", "pyxform.aliases:yes_no"),
    shims=("S1", "S2", "S3", "S4"),
    symbolic="spelling of the truth value (symbolic index over 7 documented spellings incl. true()/false()), label tracer",
    bounds="setting (allow_choice_duplicates with a duplicated choice name, omit_instanceID, clean_text_values with a double space in a label) and truth value fixed per instance; outcome (tree, warnings or error text) compared with the canonical yes/no spelling",
    weight=30,
)
