"""Helpers shared by harness modules."""
from __future__ import annotations

import sys

if "/repo" not in sys.path:
    sys.path.insert(0, "/repo")

# --- symbolic string construction from int code points -------------------------------


def S(*cps: int) -> str:
    """Build a string from code points (symbolic ints give a symbolic string)."""
    out = ""
    for c in cps:
        out = out + chr(c)
    return out


# XML 1.0 Char production as an int predicate
def is_xml_char(c: int) -> bool:
    return (
        c == 0x9
        or c == 0xA
        or c == 0xD
        or (0x20 <= c <= 0xD7FF)
        or (0xE000 <= c <= 0xFFFD)
        or (0x10000 <= c <= 0x10FFFF)
    )


def unescape_basic(s: str) -> str:
    """Inverse of the five predefined entity escapes (reference, written from XML 1.0 §4.6)."""
    out = []
    i = 0
    n = len(s)
    while i < n:
        ch = s[i]
        if ch == "&":
            for ent, rep in (("&amp;", "&"), ("&lt;", "<"), ("&gt;", ">"), ("&quot;", '"'), ("&apos;", "'")):
                if s.startswith(ent, i):
                    out.append(rep)
                    i += len(ent)
                    break
            else:
                return None  # bare ampersand: not well-formed
        elif ch == "<":
            return None
        else:
            out.append(ch)
            i += 1
    return "".join(out)


# --- minidom tree -> comparable structure -------------------------------------------


def tree(n):
    """(tag, sorted attrs, children) with text nodes as str."""
    if n.nodeType == n.TEXT_NODE or n.nodeType == n.CDATA_SECTION_NODE:
        return n.data
    attrs = []
    if n.attributes is not None:
        for i in range(n.attributes.length):
            a = n.attributes.item(i)
            attrs.append((a.name, a.value))
    attrs.sort()
    return (n.tagName, tuple(attrs), tuple(tree(c) for c in n.childNodes))


def elements(n, tag=None):
    """All descendant elements (document order), optionally with a given tagName."""
    res = []
    for c in n.childNodes:
        if c.nodeType == c.ELEMENT_NODE:
            if tag is None or c.tagName == tag:
                res.append(c)
            res.extend(elements(c, tag))
    return res


def child_elements(n):
    return [c for c in n.childNodes if c.nodeType == c.ELEMENT_NODE]


def text_of(n) -> str:
    return "".join(c.data for c in n.childNodes if c.nodeType in (c.TEXT_NODE, c.CDATA_SECTION_NODE))


def first(n, tag):
    for e in elements(n, tag):
        return e
    return None


def build_survey(workbook: dict, form_name: str = "data", prefill: bool = False, **kw):
    """dict workbook -> real workbook_to_json -> real builder.  Returns (survey, warnings)."""
    from pyxform.builder import create_survey_element_from_dict
    from pyxform.xls2json import workbook_to_json
    from pyxform.xls2json_backends import get_xlsform

    warnings = []
    wb = get_xlsform(xlsform=workbook)
    js = workbook_to_json(workbook_dict=wb, form_name=form_name, warnings=warnings, **kw)
    survey = create_survey_element_from_dict(js)
    from harness import shims

    if prefill:
        # only for forms whose element/form *names* are symbolic (dict store with a symbolic key);
        # symbolic mode only, no-op in concrete replay.  Everywhere else the real
        # Survey._setup_xpath_dictionary runs.
        shims.s3_prefill_xpath(survey)
    return survey, warnings, js


def names_violation(root):
    """Reference namespace/name check (C01): every element and attribute name in the tree is an
    XML QName, and every prefix is declared by an xmlns attribute on the root.  Returns None or a
    short reason."""
    from spec.xmlnames import is_ncname

    declared = ["xml", "xmlns"]
    for k in root.attributes.keys():
        if k.startswith("xmlns:"):
            declared.append(k[6:])
    for e in [root] + elements(root):
        for n in [e.tagName] + list(e.attributes.keys()):
            parts = n.split(":")
            if len(parts) > 2:
                return "not a QName: " + n
            for p in parts:
                if not is_ncname(p):
                    return "not an XML name: " + n
            if len(parts) == 2 and parts[0] not in declared:
                return "undeclared prefix: " + n
    return None


def chars_violation(root):
    """every character of every text node and attribute value is an XML 1.0 Char"""
    for e in [root] + elements(root):
        vals = [e.getAttribute(k) for k in e.attributes.keys()]
        for c in e.childNodes:
            if c.nodeType == c.TEXT_NODE:
                vals.append(c.data)
        for v in vals:
            for ch in v:
                if not is_xml_char(ord(ch)):
                    return "non-XML character U+%04X" % ord(ch)
    return None
