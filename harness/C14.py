"""C14 — conversion is a pure function of its input (units decided: see OUTSIDE)."""
from __future__ import annotations

import ast
import inspect
import textwrap

from harness import shims
from harness.common import S, build_survey, tree
from vf.registry import ob, ob_e2, specialise

OUTSIDE = "thread schedules are decided only for the one shared mutable object the static scan finds (the module-level expression lexer), two threads, bounded steps; set-iteration order only at the harnessed sites; process-level state (temporary files) is C18"
ASSUMPTIONS = [
    "b/c run with the lru caches ON (no S2): the caches are the subject",
    "d: each Python statement of re.Scanner.scan / the tokenizer / parse_expression is one atomic step (the GIL can switch threads between any two bytecodes; statement granularity is a coarser, still sufficient interleaving model for the self.match write/read pair)",
]
K = (
    "pyxform.survey:Survey.xml",
    "pyxform.survey:Survey.get_nsmap",
    "pyxform.survey:Survey._setup_translations",
    "pyxform.survey:Survey._add_empty_translations",
    "pyxform.survey:Survey._setup_xpath_dictionary",
    "pyxform.survey:is_parent_a_repeat",
    "pyxform.survey:share_same_repeat_parent",
    "pyxform.utils:escape_text_for_xml",
    "pyxform.parsing.expression:parse_expression",
    "pyxform.parsing.expression:get_expression_lexer",
)

# S1 and S4 only (identity hash; type-based hashable): the caches stay on.
shims.s1_identity_hash()
shims.s4_hashable()
import pyxform.parsing.instance_expression  # noqa: E402,F401  (loaded before the memo model is installed)
import pyxform.xls2json  # noqa: E402,F401
import pyxform.builder  # noqa: E402,F401

shims.s12_python_lru()


def _form(kind: int, lab: str):
    """4-form menu built to collide on cached keys: same names/xpaths/texts, different repeat structure"""
    q = {"type": "text", "name": "q", "label": lab}
    t = {"type": "text", "name": "t", "label": "T ${q}", "relevant": "${q} != ''"}
    if kind == 0:
        rows = [{"type": "begin repeat", "name": "s", "label": "S"}, q, t, {"type": "end repeat"}]
    elif kind == 1:
        rows = [{"type": "begin group", "name": "s", "label": "S"}, q, t, {"type": "end group"}]
    elif kind == 2:
        rows = [{"type": "begin repeat", "name": "s", "label": "S"}, q, {"type": "end repeat"}, t]
    elif kind == 3:
        rows = [q, {"type": "begin repeat", "name": "s", "label": "S"}, t, {"type": "end repeat"}]
    elif kind == 5:  # ${last-saved#...}: declares the last-saved secondary instance
        rows = [q, {"type": "text", "name": "u", "label": "U", "default": "${last-saved#q}"}]
        return {"survey": rows, "settings": [{"form_title": lab}]}
    else:  # a label with two instance() expressions (boundary detection + output insertion)
        n = {"type": "note", "name": "t", "label": "X instance('l1')/root/item[name='a']/label Y instance('l1')/root/item[name='b']/label"}
        rows = [q, {"type": "select_one l1", "name": "s", "label": "S"}, n]
        return {"survey": rows, "choices": [{"list_name": "l1", "name": "a", "label": "A"}, {"list_name": "l1", "name": "b", "label": "B"}], "settings": [{"form_title": lab}]}
    return {"survey": rows, "settings": [{"namespaces": "ex=http://example.org/x", "form_title": lab}], "entities": [{"dataset": "ds", "label": "a"}]}


def c14_regen(kind: int, dump_between: bool, l0: int) -> bool:
    """
    vpre: 97 <= l0 <= 122
    vpost: _ == True
    """
    _clear_caches()  # the memo model (S12) must not carry entries from another explored path
    wb = _form(kind, S(l0, 66))
    wb["survey"][0 if kind >= 3 else 1]["label::L1"] = "B"
    survey, _w, _js = build_survey(wb)
    t1 = tree(survey.xml())
    if dump_between:
        survey.to_json_dict()
    t2 = tree(survey.xml())
    t3 = tree(survey.xml())
    return t1 == t2 and t2 == t3


specialise(
    "C14",
    "b.regeneration",
    c14_regen,
    {"kind": [0, 1, 2, 3, 4]},
    timeout=400,
    kernel=K[:5],
    shims=("S1", "S3", "S4"),
    symbolic="whether to_json_dict() is called between the xml() calls (boolean), a symbolic label/title character",
    bounds="xml() generated 3 times from the same survey object (translations, namespaces incl. entities, itext); form kind fixed per instance",
    weight=80,
)


def c14_documents(kind: int, same_survey: bool, l0: int) -> bool:
    """
    vpre: 97 <= l0 <= 122
    vpost: _ == True
    """
    _clear_caches()
    lab = S(l0, 66)
    s1, _w, _js = build_survey(_form(kind, lab))
    r1 = s1.xml()  # the document object is kept, as a caller of the Survey API would
    snap = tree(r1)
    if same_survey:
        s2 = s1
    else:
        s2, _w2, _js2 = build_survey(_form(kind, lab))
    r2 = s2.xml()
    # generating a second document must not reach into the first one
    return tree(r1) == snap and tree(r2) == snap


specialise(
    "C14",
    "b.documents-independent",
    c14_documents,
    {"kind": [0, 4, 5]},
    reach_if=lambda fx: fx["kind"] == 5,
    timeout=400,
    kernel=K[:5] + ("pyxform.survey:Survey._generate_instances", "pyxform.survey:Survey._get_last_saved_instance", "pyxform.utils:node"),
    shims=("S1", "S3", "S4", "S12"),
    symbolic="whether the second document comes from the same Survey object or from a second survey of the same form (boolean), a symbolic label/title character",
    bounds="two XForm documents generated one after the other and both kept alive (form kinds: repeat+entities+namespaces, two instance() outputs, ${last-saved#} reference): the first document is unchanged by the second generation and both are equal",
    weight=60,
)


def c14_history(target: int, h0: int, h1: int, l0: int) -> bool:
    """
    vpre: 0 <= h0 <= 5 and 0 <= h1 <= 5
    vpre: 97 <= l0 <= 122
    vpost: _ == True
    """
    lab = S(l0, 65)
    # fresh-process baseline is approximated by converting the target first in this process
    # with every pyxform cache cleared
    _clear_caches()
    s0, w0, _ = build_survey(_form(target, lab))
    base = tree(s0.xml())
    _clear_caches()
    for h in (h0, h1):
        if h < 5:
            sh, _wh, _ = build_survey(_form(h, lab))
            sh.xml()
    s1, w1, _ = build_survey(_form(target, lab))
    return tree(s1.xml()) == base and w1 == w0


def _clear_caches():
    # every memoised function of every loaded pyxform module (not a fixed list: a cache added
    # later is state that earlier conversions leave behind, too)
    import sys

    for name, mod in list(sys.modules.items()):
        if name == "pyxform" or name.startswith("pyxform."):
            for v in list(vars(mod).values()):
                if callable(v) and hasattr(v, "cache_clear") and hasattr(v, "cache_info"):
                    v.cache_clear()


specialise(
    "C14",
    "c.history",
    c14_history,
    {"target": [0, 1, 2, 3, 4]},
    timeout=500,
    kernel=K[5:9] + ("pyxform.parsing.instance_expression:find_boundaries", "pyxform.parsing.instance_expression:replace_with_output"),
    shims=("S1", "S3", "S4"),
    symbolic="a history of up to 2 prior conversions drawn from the 5-form menu (2 symbolic ints; 5 = none) and a symbolic label character shared by all forms",
    bounds="target form fixed per instance; lru caches on; forms share names, texts and xpaths but differ in repeat structure",
    weight=120,
)


# ---- d: two-thread interleaving model of the shared lexer (E2-T) -------------------------------
def _scan_model():
    """Derive the per-token step list of one scan from the current sources."""
    import re

    import pyxform.parsing.expression as ex

    scan_src = textwrap.dedent(inspect.getsource(re.Scanner.scan))
    tree_ = ast.parse(scan_src)
    loop = [n for n in ast.walk(tree_) if isinstance(n, ast.While)][0]
    steps = []  # per loop iteration: list of ("local"|"write"|"call")

    def visit(stmts):
        for s in stmts:
            if isinstance(s, ast.If):
                # conservatively take the branch that contains the shared write
                visit(s.body)
                continue
            is_write = any(isinstance(t, ast.Attribute) and isinstance(t.value, ast.Name) and t.value.id == "self" and t.attr == "match" for t in getattr(s, "targets", []))
            calls_action = isinstance(s, ast.Assign) and isinstance(s.value, ast.Call) and isinstance(s.value.func, ast.Name) and s.value.func.id == "action"
            if is_write:
                steps.append("write")
            if calls_action:
                steps.append("call")
            if not is_write and not calls_action:
                steps.append("local")

    visit(loop.body)
    tok_src = textwrap.dedent(inspect.getsource(ex.get_expression_lexer))
    reads = tok_src.count("scan.match")
    pe_src = textwrap.dedent(inspect.getsource(ex.parse_expression.__wrapped__))
    pe = ast.parse(pe_src)
    locked = False
    for n in ast.walk(pe):
        if isinstance(n, ast.With):
            for sub in ast.walk(n):
                if isinstance(sub, ast.Attribute) and sub.attr == "scan":
                    locked = True
    # every other use of the shared scanner in the package must hold the same lock
    import glob

    unlocked_sites = []

    for path in glob.glob("/repo/pyxform/**/*.py", recursive=True):
        try:
            mod = ast.parse(open(path, encoding="utf-8").read())
        except SyntaxError:
            continue
        parents = {}
        for node_ in ast.walk(mod):
            for ch_ in ast.iter_child_nodes(node_):
                parents[ch_] = node_
        for node_ in ast.walk(mod):
            if isinstance(node_, ast.Call) and isinstance(node_.func, ast.Attribute) and node_.func.attr == "scan":
                tgt = node_.func.value
                tname = tgt.id if isinstance(tgt, ast.Name) else (tgt.attr if isinstance(tgt, ast.Attribute) else "")
                if "LEXER" not in tname.upper():
                    continue
                cur, inside = node_, False
                while cur in parents:
                    cur = parents[cur]
                    if isinstance(cur, ast.With) and any("LOCK" in ast.unparse(i.context_expr).upper() for i in cur.items):
                        inside = True
                if not inside:
                    locked = False
                    unlocked_sites.append(path[len("/repo/"):] + ":" + str(node_.lineno))
    per_thread_lexer = "threading.local" in inspect.getsource(ex) and "_EXPRESSION_LEXER.scan" not in pe_src
    shared = not per_thread_lexer
    expanded = []
    for st in steps:
        if st == "call":
            expanded += ["read"] * max(reads, 1)
        else:
            expanded.append(st)
    return {"steps": expanded, "locked": locked, "shared": shared, "reads": reads, "unlocked_sites": unlocked_sites}


def threads_run(tier, replay_call=None):
    import time

    import z3

    if tier == "replay":
        n = _stress(direct=bool(_scan_model().get("unlocked_sites")))
        return {"verdict": "counterexample" if n else "confirmed", "replayed": bool(n), "counterexample": replay_call}
    mdl = _scan_model()
    if "write" not in mdl["steps"] or "read" not in mdl["steps"]:
        return {"verdict": "harness_error", "detail": f"could not locate the shared write/read pair in the sources: {mdl}"}
    tokens = 2
    prog = (["acquire"] if mdl["locked"] else []) + mdl["steps"] * tokens + (["release"] if mdl["locked"] else [])
    n = len(prog)
    T = 2 * n if tier == "thorough" else min(2 * n, 14 + (4 if mdl["locked"] else 0))
    sched = [z3.Int(f"s{t}") for t in range(T)]
    s = z3.Solver()
    s.set("timeout", 120000)
    pc = [[z3.Int(f"pc{th}_{t}") for t in range(T + 1)] for th in (0, 1)]
    owner = [z3.Int(f"own{t}") for t in range(T + 1)]  # thread that last wrote self.match (-1 none)
    lock = [z3.Int(f"lk{t}") for t in range(T + 1)]  # -1 free
    s.add(pc[0][0] == 0, pc[1][0] == 0, owner[0] == -1, lock[0] == -1)
    bad = []
    for t in range(T):
        s.add(z3.Or(sched[t] == 0, sched[t] == 1))
        for th in (0, 1):
            me = sched[t] == th
            cur = pc[th][t]
            other = 1 - th
            # the other thread does not move
            s.add(z3.Implies(me, pc[other][t + 1] == pc[other][t]))
            s.add(z3.Implies(me, cur < n))  # only runnable threads are scheduled
            for i, op in enumerate(prog):
                at = z3.And(me, cur == i)
                if op == "acquire":
                    s.add(z3.Implies(at, z3.And(lock[t] == -1, lock[t + 1] == th, pc[th][t + 1] == i + 1, owner[t + 1] == owner[t])))
                elif op == "release":
                    s.add(z3.Implies(at, z3.And(lock[t + 1] == -1, pc[th][t + 1] == i + 1, owner[t + 1] == owner[t])))
                elif op == "write":
                    s.add(z3.Implies(at, z3.And(owner[t + 1] == (th if mdl["shared"] else owner[t]), lock[t + 1] == lock[t], pc[th][t + 1] == i + 1)))
                elif op == "read":
                    s.add(z3.Implies(at, z3.And(owner[t + 1] == owner[t], lock[t + 1] == lock[t], pc[th][t + 1] == i + 1)))
                    if mdl["shared"]:
                        bad.append(z3.And(at, owner[t] != th))
                else:
                    s.add(z3.Implies(at, z3.And(owner[t + 1] == owner[t], lock[t + 1] == lock[t], pc[th][t + 1] == i + 1)))
    s.add(z3.Or(*bad) if bad else z3.BoolVal(False))
    t0 = time.time()
    r = s.check()
    dt = time.time() - t0
    out = {"queries": 1, "solver_s": round(dt, 2), "extra": {"model": mdl, "program_steps": n, "schedule_bound": T, "threads": 2}, "samples": [{"program": prog[:12]}]}
    if str(r) == "unsat":
        out["verdict"] = "confirmed"
        # vacuity guard: the same model WITHOUT the lock must admit a bad schedule
        out["extra"]["vacuity"] = "model without lock/with sharing is satisfiable" if _unlocked_sat(mdl, tokens) else "NOT-SAT"
        if out["extra"]["vacuity"] == "NOT-SAT":
            return {"verdict": "harness_error", "detail": "interleaving model cannot express the race at all"}
        return out
    if str(r) == "sat":
        m = s.model()
        schedule = [m[x].as_long() for x in sched if m[x] is not None]
        bad_n = _stress(direct=bool(mdl.get("unlocked_sites")))
        out.update(verdict="counterexample", counterexample={"schedule": schedule}, replayed=bad_n > 0, detail=f"a tokenizer can read the other thread's match object: schedule {schedule}; stress replay corrupted {bad_n} scans", replay_result={"corrupted_scans": bad_n})
        return out
    out["verdict"] = "unknown"
    return out


def _unlocked_sat(mdl, tokens):
    import z3

    prog = mdl["steps"] * tokens
    # two threads, one write then reads: a bad interleaving exists iff a write of the other
    # thread can fall between a write and its read
    i_w = prog.index("write")
    i_r = prog.index("read")
    return i_r > i_w


def _stress(direct=False):
    """Two-thread stress replay.  direct=True: one thread calls the shared scanner without the
    lock, which is what the unlocked call site found by the scan does."""
    import sys
    import threading

    import pyxform.parsing.expression as ex

    old = sys.getswitchinterval()
    sys.setswitchinterval(1e-6)
    try:
        texts = ["${a} + ${bb} * instance('x')/root/item[name = ${c}]/label", "if(${long_name} > 10, 'yes', concat(${q}, 'no')) and . != ''"]

        def seq(t):
            return [(k.name, k.value, k.start, k.end) for k in ex.parse_expression.__wrapped__(t)[0]]

        base = [seq(t) for t in texts]
        bad = [0]

        def raw(t):
            return [(k.name, k.value, k.start, k.end) for k in ex._EXPRESSION_LEXER.scan(t)[0]]

        def work(i):
            f = raw if (direct and i == 0) else seq
            for _ in range(3000):
                if f(texts[i]) != base[i]:
                    bad[0] += 1

        ths = [threading.Thread(target=work, args=(i,)) for i in (0, 1)]
        [t.start() for t in ths]
        [t.join() for t in ths]
        return bad[0]
    finally:
        sys.setswitchinterval(old)


ob_e2(
    "C14",
    "d.threads",
    threads_run,
    timeout=300,
    kernel=("re:Scanner.scan", "pyxform.parsing.expression:get_expression_lexer", "pyxform.parsing.expression:parse_expression"),
    symbolic="the schedule: which of two threads executes each step (z3 Int per step)",
    bounds="2 threads, 2 tokens per scan, schedule length up to 18 steps (quick) / full program length (thorough); statement-level atomicity",
    weight=10,
)


# ---- a: hash-seed independence (S8 set-order model) ------------------------------------------
def _seed_form(variant: int, lab: str):
    if variant == 0:  # itext padding across languages with several content types (F9 shape)
        return {"survey": [{"type": "text", "name": "q1", "label": lab, "label::L1": "B", "hint": "H", "guidance_hint": "G", "image": "i.png", "audio": "a.mp3"}]}
    if variant == 1:  # or_other with two translated choice languages + missing translation warnings
        return {
            "survey": [{"type": "select_one l1 or_other", "name": "q1", "label::L1": lab, "label::L2": "B"}],
            "choices": [{"list_name": "l1", "name": "a", "label::L1": "A", "label::L2": "A2"}],
        }
    if variant == 5:  # a triggered calculation with several other bind cells: order of the bind attributes
        return {"survey": [{"type": "text", "name": "t", "label": lab}, {"type": "text", "name": "b", "label": "B", "calculation": "1", "trigger": "${t}", "relevant": "1=1", "required": "yes", "constraint": ". != 2", "read_only": "yes"}]}
    if variant == 4:  # pulldata() on different files in several bind columns: order of the instances
        return {"survey": [{"type": "text", "name": "q1", "label": lab, "calculation": "pulldata('fa','a','b','c')", "constraint": "pulldata('fb','a','b','c')", "required": "pulldata('fc','a','b','c')", "relevant": "pulldata('fd','a','b','c')"}]}
    if variant == 3:  # several extra namespaces + entities: order of xmlns attributes on the root
        return {
            "survey": [{"type": "text", "name": "q1", "label": lab}],
            "settings": [{"namespaces": 'ex="http://e/x" ab="http://e/y" cd="http://e/z"'}],
            "entities": [{"dataset": "ds", "label": "a"}],
        }
    # two unknown parameters (error message lists them), two translatable columns missing in one language
    return {"survey": [{"type": "text", "name": "q1", "label": lab, "label::L1": "B", "hint": "H", "image": "x.png", "parameters": "zz=1 aa=2"}]}


def c14_setorder(variant: int, l0: int) -> bool:
    """
    vpre: 97 <= l0 <= 122
    vpost: _ == True
    """
    from vf import setorder

    _clear_caches()  # the memo model (S12) must not carry entries from another explored path
    lab = S(l0, 66)
    outs = []
    for active in (False, True):  # first run: insertion order; second run: solver-chosen orders
        setorder.ACTIVE = active
        try:
            s, w, _js = build_survey(_seed_form(variant, lab))
            root = s.xml()
            outs.append(("ok", tree(root), list(w), list(root.attributes.keys()), root.toxml()))  # serialised text: attribute order counts
        except PyXFormError as e:
            outs.append(("error", str(e), None, None, None))
        finally:
            setorder.ACTIVE = True
    return outs[0] == outs[1]


from pyxform.errors import PyXFormError  # noqa: E402


def _seed_public(args):
    return {"workbook": _seed_form(args["variant"] if "variant" in args else 0, S(args["l0"], 66))}


for _v in (0, 1, 2, 3, 4, 5):
    specialise(
        "C14",
        "a.hash-seed",
        c14_setorder,
        {"variant": [_v]},
        timeout=500,
        kernel=("pyxform.survey:Survey._add_empty_translations", "pyxform.survey:Survey._setup_translations", "pyxform.xls2json:workbook_to_json", "pyxform.validators.pyxform.translations_checks:Translations._find_missing", "pyxform.validators.pyxform.parameters_generic:validate"),
        shims=("S1", "S3", "S4", "S8"),
        symbolic="iteration order of every set iterated by pyxform code (solver-chosen rotation/swap each time pyxform code starts iterating a set of 2-5 elements: sets built by pyxform code and module-level set constants) and a symbolic label character",
        bounds="the same workbook converted twice in one path: once with insertion order, once with solver-chosen set orders (sets of 2-5 elements; sets produced inside C-level operations such as dict-view arithmetic are outside the solver model: for those only the concrete PYTHONHASHSEED 0..23 replay of the witness form applies, and a divergence there is reported as a violation found by the replay); form variant fixed per instance (itext padding, or_other with translations, multi-item error/warning messages, namespaces, pulldata instances, bind attributes of a triggered question)",
        weight=120,
        setorder=True,
        hashseed_public=_seed_public,
    )
