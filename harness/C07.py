"""C07 / C08 shared harness — itext closure and per-language effective text.

C07 obligations check reference closure / id-set equality / default marking; C08 obligations
compare the whole itext block and body against the independent expected model below.
"""
from __future__ import annotations

from harness import shims
from harness.common import S, build_survey, child_elements, elements, text_of
from vf.registry import ob, specialise

shims.standard()

from pyxform.errors import PyXFormError  # noqa: E402

OUTSIDE = "forms with more than one translated question + one choice list; more than 3 languages; texts containing ${references} (C03/C06)"
ASSUMPTIONS = [
    "cell texts are tracers: one shared symbolic letter [a-z] + a digit identifying the cell (adversarial characters are C06's subject; letters keep the pattern space tractable)",
    "language names are concrete dict keys ('L1','L2'): dict keys are hashed, their spelling is exercised at the process_header unit (C08.a)",
    "S1-S4 shims inside CrossHair; witnesses re-run without them",
]
K = (
    "pyxform.survey:Survey._setup_translations",
    "pyxform.survey:Survey._setup_media",
    "pyxform.survey:Survey._add_empty_translations",
    "pyxform.survey:Survey.itext",
    "pyxform.survey_element:SurveyElement.get_translations",
    "pyxform.survey_element:SurveyElement.needs_itext_ref",
    "pyxform.survey_element:SurveyElement.xml_label",
    "pyxform.survey_element:SurveyElement.xml_hint",
    "pyxform.survey_element:SurveyElement.xml_bindings",
    "pyxform.parsing.sheet_headers:process_row",
    "pyxform.parsing.sheet_headers:merge_dicts",
    "pyxform.xls2json:workbook_to_json",
)

# cell index -> (kind, language or None for the unsuffixed column)
CELLS = [
    ("label", None), ("label", "L1"), ("label", "L2"),
    ("hint", None), ("hint", "L1"),
    ("guidance_hint", None),
    ("constraint_message", None), ("constraint_message", "L1"),
    ("image", None), ("image", "L1"),
    ("guidance_hint", "L1"),
]
DLANGS = ["default", "L1", "L3"]


def header(kind, lang):
    return kind if lang is None else f"{kind}::{lang}"


def expected_model(flags, texts, D):
    """Independent model from the C08 statement.  Returns (itext, body_label, body_hint,
    bind_cmsg) where itext = {lang: {id: {form: text}}}; body_* = ("ref", id) | ("inline", text) | None."""
    cells = {}
    for i, (k, l) in enumerate(CELLS):
        if flags[i]:
            cells[(k, l)] = texts[i]

    def written(kind):
        return [(l, t) for (k, l), t in cells.items() if k == kind]

    def lang_map(kind):
        m = {}
        for l, t in written(kind):
            if l is None:
                m[D] = t
        for l, t in written(kind):
            if l is not None:
                m[l] = t  # explicit language column overrides the unsuffixed cell
        return m

    def is_dict(kind):
        return any(l is not None for l, _t in written(kind))

    has_img = bool(written("image"))
    label_itext = is_dict("label") or has_img
    guid = bool(written("guidance_hint"))
    hint_itext = is_dict("hint") or guid
    cmsg_itext = is_dict("constraint_message")
    ids = {}
    if label_itext:
        forms = {}
        if written("label"):
            forms["long"] = lang_map("label")
        if has_img:
            forms["image"] = {l: "jr://images/" + t for l, t in lang_map("image").items()}
        ids["/data/q1:label"] = forms
    if hint_itext:
        forms = {}
        if written("hint"):
            forms["long"] = lang_map("hint")
        if guid:
            forms["guidance"] = lang_map("guidance_hint")
        ids["/data/q1:hint"] = forms
    if cmsg_itext:
        ids["/data/q1:jr:constraintMsg"] = {"long": lang_map("constraint_message")}
    langs = []
    for forms in ids.values():
        for m in forms.values():
            for l in m:
                if l not in langs:
                    langs.append(l)
    itext = {}
    for l in langs:
        itext[l] = {}
        for tid, forms in ids.items():
            itext[l][tid] = {}
            for form, m in forms.items():
                if l in m:
                    itext[l][tid][form] = m[l]
                elif form != "image":
                    itext[l][tid][form] = "-"
    if label_itext:
        body_label = ("ref", "/data/q1:label")
    elif written("label"):
        body_label = ("inline", cells[("label", None)])
    else:
        body_label = ("inline", "")
    if hint_itext:
        body_hint = ("ref", "/data/q1:hint")
    elif written("hint"):
        body_hint = ("inline", cells[("hint", None)])
    else:
        body_hint = None
    if cmsg_itext:
        bind_cmsg = "jr:itext('/data/q1:jr:constraintMsg')"
    elif written("constraint_message"):
        bind_cmsg = cells[("constraint_message", None)]
    else:
        bind_cmsg = None
    return itext, body_label, body_hint, bind_cmsg


def parse_itext(root):
    """-> (list of (lang, is_default), {lang: {id: {form: text}}}, duplicate?)"""
    its = elements(root, "itext")
    if not its:
        return [], {}, False
    langs, out, dup = [], {}, False
    for tr in child_elements(its[0]):
        lang = tr.getAttribute("lang")
        if lang in out:
            dup = True
        langs.append((lang, tr.getAttribute("default") if tr.hasAttribute("default") else None))
        out[lang] = {}
        for tx in child_elements(tr):
            tid = tx.getAttribute("id")
            if tid in out[lang]:
                dup = True
            out[lang][tid] = {}
            for v in child_elements(tx):
                form = v.getAttribute("form") if v.hasAttribute("form") else "long"
                if form in out[lang][tid]:
                    dup = True
                out[lang][tid][form] = text_of(v)
    return langs, out, dup


def itext_refs(root):
    """ids referenced from body label/hint refs and bind message attributes"""
    refs = []
    for e in elements(root):
        for attr in ("ref", "jr:constraintMsg", "jr:requiredMsg", "jr:noAppErrorString"):
            if e.hasAttribute(attr):
                v = e.getAttribute(attr)
                if v.startswith("jr:itext('") and v.endswith("')"):
                    refs.append(v[len("jr:itext('") : -2])
    return refs


def build(flags, c0, D, rev=False, qtype="text"):
    texts = [S(c0, 48 + i) for i in range(len(CELLS))]
    row = {"type": qtype, "name": "q1", "constraint": ". != 'x'"}
    if qtype == "calculate":
        row["calculation"] = "1 + 1"
    order = list(range(len(CELLS)))
    if rev:
        order.reverse()
    for i in order:
        k, l = CELLS[i]
        if flags[i]:
            row[header(k, l)] = texts[i]
    wb = {"survey": [row]}
    if D != "default":
        wb["settings"] = [{"default_language": D}]
    survey, warnings, _js = build_survey(wb)
    return survey.xml(), texts, warnings


def closure_ok(root, D) -> bool:
    langs, it, dup = parse_itext(root)
    if dup:
        return False
    # all translations have the same id set
    idsets = [sorted(it[l].keys()) for l, _d in langs]
    for s in idsets[1:]:
        if s != idsets[0]:
            return False
    # every reference (body, bind messages, choice itextId) resolves in every translation
    refs = itext_refs(root) + [text_of(e) for e in elements(root, "itextId")]
    for ref in refs:
        if not langs:
            return False
        for l, _d in langs:
            if ref not in it[l]:
                return False
    # default marking: stated only for the case that the default language is one of the translations
    if any(l == D for l, _d in langs):
        for l, d in langs:
            if l == D:
                if d != "true()":
                    return False
            elif d is not None:
                return False
    return True


def c07_question(dsel: int, rev: bool, f0: bool, f1: bool, f2: bool, f3: bool, f4: bool, f5: bool, f6: bool, f7: bool, f8: bool, f9: bool, f10: bool, c0: int) -> bool:
    """
    vpre: f0 or f1 or f2
    vpre: 97 <= c0 <= 122
    vpost: _ == True
    """
    flags = (f0, f1, f2, f3, f4, f5, f6, f7, f8, f9, f10)
    D = DLANGS[dsel]
    root, texts, _w = build(flags, c0, D, rev)
    return closure_ok(root, D)


def c08_question(dsel: int, rev: bool, f0: bool, f1: bool, f2: bool, f3: bool, f4: bool, f5: bool, f6: bool, f7: bool, f8: bool, f9: bool, f10: bool, c0: int) -> bool:
    """
    vpre: f0 or f1 or f2
    vpre: 97 <= c0 <= 122
    vpost: _ == True
    """
    flags = (f0, f1, f2, f3, f4, f5, f6, f7, f8, f9, f10)
    D = DLANGS[dsel]
    root, texts, _w = build(flags, c0, D, rev)
    exp_it, exp_label, exp_hint, exp_cmsg = expected_model(flags, texts, D)
    langs, it, dup = parse_itext(root)
    if dup:
        return False
    if sorted(it.keys()) != sorted(exp_it.keys()):
        return False
    for l in exp_it:
        if sorted(it[l].keys()) != sorted(exp_it[l].keys()):
            return False
        for tid in exp_it[l]:
            if sorted(it[l][tid].keys()) != sorted(exp_it[l][tid].keys()):
                return False
            for form in exp_it[l][tid]:
                if it[l][tid][form] != exp_it[l][tid][form]:
                    return False
    ctl = [e for e in elements(root, "input")][0]
    lab = [c for c in child_elements(ctl) if c.tagName == "label"]
    hin = [c for c in child_elements(ctl) if c.tagName == "hint"]
    if len(lab) != 1:
        return False
    if exp_label[0] == "ref":
        if lab[0].getAttribute("ref") != "jr:itext('" + exp_label[1] + "')":
            return False
    elif lab[0].hasAttribute("ref") or text_of(lab[0]) != exp_label[1]:
        return False
    if exp_hint is None:
        if hin:
            return False
    else:
        if len(hin) != 1:
            return False
        if exp_hint[0] == "ref":
            if hin[0].getAttribute("ref") != "jr:itext('" + exp_hint[1] + "')":
                return False
        elif hin[0].hasAttribute("ref") or text_of(hin[0]) != exp_hint[1]:
            return False
    b = [e for e in elements(root, "bind") if e.getAttribute("nodeset") == "/data/q1"][0]
    got = b.getAttribute("jr:constraintMsg") if b.hasAttribute("jr:constraintMsg") else None
    return got == exp_cmsg


_SPLIT_Q = {"f0": [False, True], "f1": [False, True], "dsel": [0, 2], "rev": [False, True], "f2": [False], "f4": [False], "f9": [False]}
_SPLIT_T = {"f0": [False, True], "f1": [False, True], "f2": [False, True], "dsel": [0, 1, 2], "rev": [False, True], "f4": [False, True]}


def register(prop, fn, oid):
    specialise(
        prop,
        oid,
        fn,
        _SPLIT_Q,
        skip_if=lambda fx: not (fx["f0"] or fx["f1"]),
        tiers=("quick",),
        timeout=400,
        kernel=K,
        shims=("S1", "S2", "S3", "S4"),
        symbolic="presence of hint, guidance_hint, guidance_hint::L1, constraint_message, constraint_message::L1, image cells (6 symbolic booleans) and the shared tracer character",
        bounds="one text question; label/label::L1 presence, default_language in {unset, L3 (not otherwise used)} and column order (sheet order / reversed) fixed per instance; label::L2, hint::L1, image::L1 absent in the quick tier",
        weight=90,
    )
    specialise(
        prop,
        oid + ".full",
        fn,
        _SPLIT_T,
        skip_if=lambda fx: not (fx["f0"] or fx["f1"] or fx["f2"]),
        reach_if=lambda fx: fx["dsel"] == 0 and not fx["rev"] and not fx["f4"],
        tiers=("thorough",),
        timeout=1500,
        kernel=K,
        shims=("S1", "S2", "S3", "S4"),
        symbolic="presence of hint, guidance_hint, guidance_hint::L1, constraint_message, constraint_message::L1, image, image::L1 (7 symbolic booleans) and the shared tracer character",
        bounds="one text question; label/label::L1/label::L2/hint::L1 presence, default_language in {unset, L1, L3} and column order fixed per instance (all 2^11 presence patterns across instances)",
        weight=600,
    )


register("C07", c07_question, "a.question")


def c07_calc(dsel: int, rev: bool, f_cm: bool, f_cm1: bool, f_rm1: bool, f_lab1: bool, c0: int) -> bool:
    """
    vpre: 0 <= dsel <= 2
    vpre: 97 <= c0 <= 122
    vpost: _ == True
    """
    D = DLANGS[dsel]
    row = {"type": "calculate", "name": "q1", "calculation": "1 + 1", "constraint": ". != 1", "required": "yes"}
    cells = []
    if f_cm:
        cells.append(("constraint_message", S(c0, 49)))
    if f_cm1:
        cells.append(("constraint_message::L1", S(c0, 50)))
    if f_rm1:
        cells.append(("required_message::L1", S(c0, 51)))
    if f_lab1:
        cells.append(("label::L1", S(c0, 52)))
    if rev:
        cells.reverse()
    for k, v in cells:
        row[k] = v
    wb = {"survey": [row, {"type": "text", "name": "q2", "label": "L", "hint::L2": "H"}]}
    if D != "default":
        wb["settings"] = [{"default_language": D}]
    survey, _w, _js = build_survey(wb)
    return closure_ok(survey.xml(), D)


specialise(
    "C07",
    "a.calculate",
    c07_calc,
    {"rev": [False, True]},
    timeout=400,
    kernel=K,
    shims=("S1", "S2", "S3", "S4"),
    symbolic="presence of constraint_message, constraint_message::L1, required_message::L1, label::L1 on a calculate row (4 symbolic booleans), default_language over {unset, L1, L3}, shared tracer character",
    bounds="a calculate question (no body control) next to a text question with hint::L2; column order fixed per instance",
    weight=100,
)


def c07_msgrefs(which: int, other_translated: bool, in_repeat: bool, c0: int) -> bool:
    """
    vpre: 97 <= c0 <= 122
    vpost: _ == True
    """
    col = ["constraint_message", "required_message", "no_app_error_string", "hint", "guidance_hint"][which]
    q1 = {"type": "text", "name": "q1", "label": S(c0, 65), "constraint": ". != 1", "required": "yes", col: "see ${q0} please"}
    if which == 4:
        q1["hint"] = "h"
    if other_translated:
        q1["label::L1"] = "B"
    rows = [{"type": "text", "name": "q0", "label": "Q0"}, q1]
    if in_repeat:
        rows = [{"type": "begin repeat", "name": "r", "label": "R"}] + rows + [{"type": "end repeat"}]
    survey, _w, _js = build_survey({"survey": rows})
    root = survey.xml()
    for e in elements(root):
        for a in e.attributes.keys():
            if "${" in e.getAttribute(a):
                return False
    return closure_ok(root, "default")


specialise(
    "C07",
    "a.message-references",
    c07_msgrefs,
    {"which": [0, 1, 2, 3, 4]},
    timeout=300,
    kernel=K,
    shims=("S1", "S2", "S4"),
    symbolic="another translated column present (boolean), question inside a repeat (boolean), symbolic label character; the message text with its ${q0} reference is concrete (C lexer)",
    bounds="message column fixed per instance: constraint_message, required_message, no_app_error_string, hint, guidance_hint",
    weight=40,
)


def c07_choices(usage: int, la0: bool, la1: bool, lb0: bool, lb1: bool, ima: bool, c0: int) -> bool:
    """
    vpre: la0 or la1 or ima
    vpre: lb0 or lb1
    vpre: 97 <= c0 <= 122
    vpost: _ == True
    """
    a = {"list_name": "l1", "name": "a"}
    b = {"list_name": "l1", "name": "b"}
    if la0:
        a["label"] = S(c0, 49)
    if la1:
        a["label::L1"] = S(c0, 50)
    if ima:
        a["image"] = "a.png"
    if lb0:
        b["label"] = S(c0, 51)
    if lb1:
        b["label::L1"] = S(c0, 52)
    rows = [{"type": "select_one l1", "name": "q1", "label": "Q1"}]
    if usage == 1:
        rows.append({"type": "select_multiple l1", "name": "q2", "label": "Q2", "choice_filter": "true()"})
    elif usage == 2:
        rows[0]["appearance"] = "search('mydata')"
    survey, _w, _js = build_survey({"survey": rows, "choices": [a, b]})
    return closure_ok(survey.xml(), "default")


specialise(
    "C07",
    "b.choices",
    c07_choices,
    {"usage": [0, 1, 2]},
    timeout=400,
    kernel=K + ("pyxform.survey:Survey._generate_static_instances", "pyxform.survey:Survey._redirect_is_search_itext", "pyxform.question:Itemset.get_options", "pyxform.question:MultipleChoiceQuestion.build_xml"),
    shims=("S1", "S2", "S3", "S4"),
    symbolic="presence of label / label::L1 on two choices and an image on the first (5 symbolic booleans; every choice has some label or media), shared tracer character",
    bounds="one list of 2 choices used by one select / two selects (one filtered) / a search() select (fixed per instance)",
    weight=100,
)



def c07_choices_unlabeled(usage: int, la0: bool, la1: bool, lb0: bool, lb1: bool, ima: bool, c0: int) -> bool:
    """
    vpre: la0 or la1 or lb0 or lb1
    vpre: 97 <= c0 <= 122
    vpost: _ == True
    """
    a = {"list_name": "l1", "name": "a"}
    b = {"list_name": "l1", "name": "b"}
    if la0:
        a["label"] = S(c0, 49)
    if la1:
        a["label::L1"] = S(c0, 50)
    if ima:
        a["image"] = "a.png"
    if lb0:
        b["label"] = S(c0, 51)
    if lb1:
        b["label::L1"] = S(c0, 52)
    rows = [{"type": "select_one l1", "name": "q1", "label": "Q1"}]
    if usage == 1:
        rows.append({"type": "select_multiple l1", "name": "q2", "label": "Q2", "choice_filter": "true()"})
    survey, _w, _js = build_survey({"survey": rows, "choices": [a, b]})
    return closure_ok(survey.xml(), "default")


def _classify_unlabeled(call, replay):
    """Known finding F11: a choice with no label and no media inside a list that needs itext."""
    names = ["la0", "la1", "lb0", "lb1", "ima", "c0"]
    args = dict(zip(names, call.get("args", [])))
    a_bare = not (args.get("la0") or args.get("la1") or args.get("ima"))
    b_bare = not (args.get("lb0") or args.get("lb1"))
    return "F11" if (a_bare or b_bare) else None


specialise(
    "C07",
    "b.choices-unlabeled",
    c07_choices_unlabeled,
    {"usage": [0]},
    timeout=300,
    kernel=K + ("pyxform.survey:Survey._generate_static_instances",),
    shims=("S1", "S2", "S3", "S4"),
    symbolic="presence of label / label::L1 on two choices and an image on the first (5 symbolic booleans, choices may be left without any label), shared tracer character",
    bounds="one list of 2 choices used by one select; companion of b.choices without the 'every choice is labelled' assumption",
    weight=60,
    expect="known",
    reach=False,
    classifier=_classify_unlabeled,
)


# ---- c: language names that differ only by letter case are two languages ---------------------------
LANG_PAIRS = [("En", "en"), ("L1", "l1"), ("fr", "FR")]
def c07_langcase(pair: int, dsel: int, f_h: bool, f_l2: bool, rev: bool, c0: int) -> bool:
    """
    vpre: 0 <= dsel <= 2
    vpre: 97 <= c0 <= 122
    vpost: _ == True
    """
    A, B = LANG_PAIRS[pair]
    D = ["default", A, B][dsel]
    cells = [("label::" + A, S(c0, 49))]
    if f_h:
        cells.append(("hint::" + B, S(c0, 50)))
    if f_l2:
        cells.append(("label::" + B, S(c0, 51)))
    if rev:
        cells.reverse()
    row = {"type": "text", "name": "q1"}
    for k, v in cells:
        row[k] = v
    wb = {"survey": [row]}
    if D != "default":
        wb["settings"] = [{"default_language": D}]
    survey, _w, _js = build_survey(wb)
    return closure_ok(survey.xml(), D)


specialise(
    "C07",
    "c.language-case",
    c07_langcase,
    {"pair": [0, 1, 2]},
    timeout=300,
    kernel=K,
    shims=("S1", "S2", "S3", "S4"),
    symbolic="default_language over {unset, first spelling, second spelling}, presence of a hint / label in the second spelling (2 booleans), column order (boolean), shared tracer character",
    bounds="two language names that differ only by letter case, fixed per instance (language names are dict keys: concrete)",
    weight=40,
)


# ---- d: labels and media of groups and repeats --------------------------------------------------------
def c07_section_media(kind: int, f_lab: bool, f_lab1: bool, f_img: bool, f_img1: bool, f_q1: bool, c0: int) -> bool:
    """
    vpre: 97 <= c0 <= 122
    vpost: _ == True
    """
    sec = {"type": "begin " + ("group", "repeat")[kind], "name": "s"}
    if f_lab:
        sec["label"] = S(c0, 49)
    if f_lab1:
        sec["label::L1"] = S(c0, 50)
    if f_img:
        sec["image"] = "a.png"
    if f_img1:
        sec["image::L1"] = "b.png"
    q = {"type": "text", "name": "q1", "label": "Q"}
    if f_q1:
        q["label::L1"] = S(c0, 51)
    survey, _w, _js = build_survey({"survey": [sec, q, {"type": "end " + ("group", "repeat")[kind]}]})
    return closure_ok(survey.xml(), "default")


specialise(
    "C07",
    "d.section-media",
    c07_section_media,
    {"kind": [0, 1]},
    timeout=400,
    kernel=K + ("pyxform.section:GroupedSection.xml_control", "pyxform.section:RepeatingSection.xml_control"),
    shims=("S1", "S2", "S3", "S4"),
    symbolic="presence of label, label::L1, image, image::L1 on the section row and of a translated label on the inner question (5 symbolic booleans: includes sections with media and no label text), shared tracer character",
    bounds="one group / repeat (fixed per instance) around one question",
    weight=60,
)


# ---- e: OSM tag labels ------------------------------------------------------------------------------------
def c07_osm_tags(trans: bool, q_trans: bool, c0: int) -> bool:
    """
    vpre: 97 <= c0 <= 122
    vpost: _ == True
    """
    t = S(c0, 49)
    if trans:
        osm = [{"list_name": "tags", "name": "building", "label::L1": t, "label::L2": "B2"}, {"list_name": "tags", "name": "amenity", "label::L1": "A1", "label::L2": "A2"}]
    else:
        osm = [{"list_name": "tags", "name": "building", "label": t}, {"list_name": "tags", "name": "amenity", "label": "A"}]
    q = {"type": "osm tags", "name": "o"}
    if q_trans:
        q["label::L1"] = "O1"
        q["label::L2"] = "O2"
    else:
        q["label"] = "O"
    survey, _w, _js = build_survey({"survey": [q], "osm": osm})
    return closure_ok(survey.xml(), "default")


specialise(
    "C07",
    "e.osm-tags",
    c07_osm_tags,
    {"trans": [False]},
    timeout=300,
    kernel=K + ("pyxform.question:OsmUploadQuestion.build_xml", "pyxform.question:Tag.xml"),
    shims=("S1", "S2", "S3", "S4"),
    symbolic="translated or plain label on the osm question (boolean), tag label tracer character",
    bounds="one osm question with two tags whose labels are plain text",
    weight=30,
)
specialise(
    "C07",
    "e.osm-tags-translated",
    c07_osm_tags,
    {"trans": [True]},
    timeout=300,
    kernel=K + ("pyxform.question:OsmUploadQuestion.build_xml", "pyxform.question:Tag.xml"),
    shims=("S1", "S2", "S3", "S4"),
    symbolic="translated or plain label on the osm question (boolean), tag label tracer character",
    bounds="one osm question with two tags whose labels are translated (label::L1, label::L2); expected to reproduce known finding F23",
    weight=30,
    expect="known",
    reach=False,
    classifier=lambda call, replay: "F23",
)


# ---- f: regeneration from one Survey object (round 3) -------------------------------------------------------
from harness.common import tree  # noqa: E402


def c07_regenerate(usage: int, times: int, la0: bool, la1: bool, lb0: bool, lb1: bool, ima: bool, c0: int) -> bool:
    """
    vpre: la0 or la1 or ima
    vpre: lb0 or lb1
    vpre: 2 <= times <= 3
    vpre: 97 <= c0 <= 122
    vpost: _ == True
    """
    a = {"list_name": "l1", "name": "a"}
    b = {"list_name": "l1", "name": "b"}
    if la0:
        a["label"] = S(c0, 49)
    if la1:
        a["label::L1"] = S(c0, 50)
    if ima:
        a["image"] = "a.png"
    if lb0:
        b["label"] = S(c0, 51)
    if lb1:
        b["label::L1"] = S(c0, 52)
    rows = [{"type": "select_one l1", "name": "q1", "label": "Q1"}]
    if usage == 1:
        rows.append({"type": "select_multiple l1", "name": "q2", "label": "Q2", "choice_filter": "true()"})
    elif usage == 2:
        rows[0]["appearance"] = "search('mydata')"
    survey, _w, _js = build_survey({"survey": rows, "choices": [a, b]})
    first = None
    for _i in range(times):
        root = survey.xml()
        if not closure_ok(root, "default"):
            return False
        t = tree(root)
        if first is None:
            first = t
        elif t != first:
            return False
    return True


specialise(
    "C07",
    "f.regenerate",
    c07_regenerate,
    {"usage": [0, 1, 2]},
    timeout=500,
    kernel=K + ("pyxform.survey:Survey._generate_static_instances", "pyxform.survey:Survey._redirect_is_search_itext", "pyxform.question:Itemset.get_options", "pyxform.question:MultipleChoiceQuestion.build_xml"),
    shims=("S1", "S2", "S3", "S4"),
    symbolic="as b.choices, plus the number of times (2-3) the XForm is generated from the same Survey object",
    bounds="one list of 2 choices used by one select / two selects (one filtered) / a search() select (fixed per instance); every generation satisfies the itext closure oracle and equals the first",
    weight=120,
)
