"""Harness-side shims (DESIGN §2.1).  None of them touches /repo.

Symbolic-only shims (S1-S4) are applied only when VF_SYMBOLIC=1 (inside CrossHair);
the concrete replay (VF_SYMBOLIC=0) runs the unmodified implementation, which is how a
shim that misrepresents the code is detected.
"""
from __future__ import annotations

import os

SYMBOLIC = os.environ.get("VF_SYMBOLIC", "0") == "1"
APPLIED = []


def _mark(name):
    if name not in APPLIED:
        APPLIED.append(name)


def s1_identity_hash():
    """S1: SurveyElement hash/eq by identity (CrossHair makes id() symbolic)."""
    if not SYMBOLIC:
        return
    from pyxform.survey_element import SurveyElement

    SurveyElement.__hash__ = object.__hash__
    SurveyElement.__eq__ = lambda self, other: self is other
    SurveyElement.__ne__ = lambda self, other: self is not other
    _mark("S1")


def s2_uncache():
    """S2: lru_cache'd pure functions replaced by their __wrapped__."""
    if not SYMBOLIC:
        return
    import pyxform.survey as sv
    import pyxform.utils as ut

    for mod, name in ((sv, "is_parent_a_repeat"), (sv, "share_same_repeat_parent"), (ut, "escape_text_for_xml")):
        f = getattr(mod, name)
        if hasattr(f, "__wrapped__"):
            setattr(mod, name, f.__wrapped__)
    # names imported by value elsewhere
    if hasattr(sv, "escape_text_for_xml") and hasattr(sv.escape_text_for_xml, "__wrapped__"):
        sv.escape_text_for_xml = sv.escape_text_for_xml.__wrapped__
    import pyxform.question as q
    import pyxform.survey_element as se

    for mod in (q, se):
        for name in ("escape_text_for_xml",):
            f = getattr(mod, name, None)
            if f is not None and hasattr(f, "__wrapped__"):
                setattr(mod, name, f.__wrapped__)
    # recursion inside is_parent_a_repeat resolves the module global -> unwrapped as well
    _mark("S2")


class ListMap:
    """S3: association-list Mapping with dict semantics for str keys (no hashing)."""

    def __init__(self):
        self.items_ = []

    def __contains__(self, k):
        return any(k == kk for kk, _ in self.items_)

    def __getitem__(self, k):
        for kk, v in self.items_:
            if k == kk:
                return v
        raise KeyError(k)

    def get(self, k, d=None):
        for kk, v in self.items_:
            if k == kk:
                return v
        return d

    def __setitem__(self, k, v):
        for i, (kk, _) in enumerate(self.items_):
            if k == kk:
                self.items_[i] = (kk, v)
                return
        self.items_.append((k, v))

    def __iter__(self):
        return iter([k for k, _ in self.items_])

    def keys(self):
        return [k for k, _ in self.items_]

    def values(self):
        return [v for _, v in self.items_]

    def items(self):
        return list(self.items_)

    def __len__(self):
        return len(self.items_)

    def __bool__(self):
        return bool(self.items_)


def s3_prefill_xpath(survey):
    """S3: pre-fill survey._xpath by the rule of Survey._setup_xpath_dictionary."""
    if not SYMBOLIC:
        return
    m = ListMap()
    for element in survey.iter_descendants():
        from pyxform.question import Option, Tag

        if isinstance(element, Option | Tag):
            continue
        if element.name in m:
            m[element.name] = None
        else:
            m[element.name] = element
    survey._xpath = m
    _mark("S3")


def s4_hashable():
    """S4: survey_element.hashable without calling hash()."""
    if not SYMBOLIC:
        return
    import pyxform.survey_element as se

    se.hashable = lambda v: not isinstance(v, (dict, list, set))
    _mark("S4")


def standard():
    s1_identity_hash()
    s2_uncache()
    s4_hashable()


def s5_xml_parser():
    """S5: defusedxml.minidom.parseString at utils.node(toParseString=True) -> pure-Python
    parser model (expat is C).  Symbolic mode only; replay uses expat."""
    if not SYMBOLIC:
        return
    import pyxform.utils as ut
    from harness import xmlmodel

    ut.parseString = xmlmodel.parse_bytes
    _mark("S5")


def s9_no_instance_boundaries():
    """S9: instance_expression.find_boundaries (C lexer) -> [] ; sound only for texts that
    do not contain 'instance(' — harnesses using it bound text length below 9."""
    if not SYMBOLIC:
        return
    import pyxform.parsing.instance_expression as ie

    ie.find_boundaries = lambda xml_text: []
    _mark("S9")


def s10_static_defaults():
    """S10: default_is_dynamic (C lexer) -> False in the three consuming modules; used only
    where the default alphabet contains no dynamic-default trigger characters."""
    if not SYMBOLIC:
        return
    import pyxform.question as q
    import pyxform.survey_element as se
    import pyxform.xls2json as xj

    for mod in (q, se, xj):
        mod.default_is_dynamic = lambda element_default, element_type=None: False
    _mark("S10")


class _PyCsvWriter:
    """S6: pure-Python model of csv.writer(f, quoting=csv.QUOTE_ALL) with the default dialect
    (every field quoted, '"' doubled, CRLF line terminator).  Symbolic mode only: the C writer
    would realise symbolic cell text.  Witnesses are replayed against the C writer."""

    def __init__(self, f, quoting=None, **kw):
        self.f = f

    def writerow(self, row):
        self.f.write(",".join('"' + ("" if x is None else str(x)).replace('"', '""') + '"' for x in row) + "\r\n")


class _PyStringIO:
    """S6: write-only text buffer (CrossHair's StringIO model realises text when a newline
    translation mode is given)."""

    def __init__(self, *a, **kw):
        self.parts = []

    def write(self, s):
        self.parts.append(s)
        return len(s)

    def getvalue(self):
        return "".join(self.parts)


def s6_csv_writer():
    if not SYMBOLIC:
        return
    import types

    import pyxform.utils as ut

    ut.csv = types.SimpleNamespace(writer=_PyCsvWriter, QUOTE_ALL=1)
    ut.StringIO = _PyStringIO
    _mark("S6")


class _PyMemo:
    """S12: pure-Python model of functools.lru_cache (association list compared with ==, oldest
    entry evicted at maxsize).  CrossHair calls lru_cache-wrapped functions without their cache
    (a memoised result that is mutated by the caller shows as 'Confirmed' although the concrete
    run differs), so cache state left behind by earlier conversions is only visible to the
    search through this model.  The cached object itself is returned, as the C cache does."""

    def __init__(self, fn, maxsize):
        self.__wrapped__ = fn
        self.maxsize = maxsize
        self.entries = []
        self.__name__ = getattr(fn, "__name__", "memo")
        self.__doc__ = getattr(fn, "__doc__", None)

    def __call__(self, *args, **kw):
        key = (args, tuple(sorted(kw.items())))
        for k, v in self.entries:
            if k == key:
                return v
        v = self.__wrapped__(*args, **kw)
        self.entries.append((key, v))
        if self.maxsize is not None and len(self.entries) > self.maxsize:
            self.entries.pop(0)
        return v

    def cache_clear(self):
        self.entries = []

    def cache_info(self):
        return (0, 0, self.maxsize, len(self.entries))


def s12_python_lru():
    if not SYMBOLIC:
        return
    import sys

    mods = [m for n, m in list(sys.modules.items()) if n == "pyxform" or n.startswith("pyxform.")]
    repl = {}
    for m in mods:
        for name, v in list(vars(m).items()):
            if callable(v) and hasattr(v, "cache_info") and hasattr(v, "__wrapped__") and not isinstance(v, _PyMemo):
                if id(v) not in repl:
                    try:
                        ms = v.cache_parameters()["maxsize"]
                    except Exception:  # noqa: BLE001
                        ms = 128
                    repl[id(v)] = _PyMemo(v.__wrapped__, ms)
                setattr(m, name, repl[id(v)])
    _mark("S12")
