"""C09 — choice lists survive intact and selects are wired to their own list."""
from __future__ import annotations

from harness import shims
from harness.common import S, build_survey, child_elements, elements, text_of
from vf.registry import ob, ob_e2, specialise

shims.standard()

from pyxform.errors import PyXFormError  # noqa: E402

OUTSIDE = "more than 3 lists x 3 choices x 2 extra columns; choice media/translations (C07/C08); osm tags; cascading selects"
ASSUMPTIONS = [
    "choice names, list names and extra-column headers are concrete dict keys; labels, extra-column cells, filters and file stems are symbolic tracers over U+0021-U+007E minus '$'",
    "csv.writer replaced by a pure-Python QUOTE_ALL writer model (S6) in d.itemsets-csv, validated against the C writer on every witness",
    "S1-S4 shims inside CrossHair; witnesses re-run without them",
]
K = (
    "pyxform.xls2json:workbook_to_json",
    "pyxform.xls2json:group_dictionaries_by_key",
    "pyxform.xls2json:add_choices_info_to_question",
    "pyxform.validators.pyxform.choices:validate_and_clean_choices",
    "pyxform.survey:Survey._generate_static_instances",
    "pyxform.survey:Survey._generate_instances",
    "pyxform.survey:Survey._generate_from_file_instances",
    "pyxform.survey:Survey._generate_external_instances",
    "pyxform.survey:Survey._generate_pulldata_instances",
    "pyxform.question:MultipleChoiceQuestion.build_xml",
    "pyxform.question:Itemset.get_options",
)

INTERLEAVE = [[0, 1, 2, 3], [2, 0, 3, 1], [0, 2, 1, 3]]  # orders of rows (l1.a, l1.b, l2.a, l3.a)


def c09_lists(order: int, xa0: bool, lab1: bool, xa1: bool, xa2: bool, xb0: bool, xb1: bool, xb2: bool, c0: int) -> bool:
    """
    vpre: 33 <= c0 <= 126 and c0 != 36
    vpost: _ == True
    """
    T = [S(c0, 48 + i) for i in range(10)]
    r0 = {"list_name": "l1", "name": "a", "label": T[0]}
    r1 = {"list_name": "l1", "name": "b"}
    r2 = {"list_name": "l2", "name": "a", "label": T[2]}
    r3 = {"list_name": "l3", "name": "z", "label": T[3]}  # unused list
    if lab1:
        r1["label"] = T[1]
    if xa0:
        r0["xa"] = T[4]
    if xb0:
        r0["xb"] = T[5]
    if xa1:
        r1["xa"] = T[6]
    if xb1:
        r1["xb"] = T[7]
    if xa2:
        r2["xa"] = T[8]
    if xb2:
        r2["xb"] = T[9]
    base = [r0, r1, r2, r3]
    rows = [base[i] for i in INTERLEAVE[order]]
    wb = {
        "survey": [
            {"type": "select_one l1", "name": "q1", "label": "Q1"},
            {"type": "select_multiple l2", "name": "q2", "label": "Q2"},
        ],
        "choices": rows,
        "choices_header": [{"list_name": None, "name": None, "label": None, "xa": None, "xb": None}],
    }
    survey, _w, _js = build_survey(wb)
    root = survey.xml()
    model = elements(root, "model")[0]
    insts = {}
    for i in child_elements(model):
        if i.tagName == "instance" and i.hasAttribute("id"):
            if i.getAttribute("id") in insts:
                return False
            insts[i.getAttribute("id")] = i
    if sorted(insts.keys()) != ["l1", "l2", "l3"]:
        return False
    want = {
        "l1": [
            [("name", "a"), ("label", T[0])] + ([("xa", T[4])] if xa0 else []) + ([("xb", T[5])] if xb0 else []),
            [("name", "b")] + ([("label", T[1])] if lab1 else []) + ([("xa", T[6])] if xa1 else []) + ([("xb", T[7])] if xb1 else []),
        ],
        "l2": [[("name", "a"), ("label", T[2])] + ([("xa", T[8])] if xa2 else []) + ([("xb", T[9])] if xb2 else [])],
        "l3": [[("name", "z"), ("label", T[3])]],
    }
    for lid, items in want.items():
        inst = insts[lid]
        if inst.hasAttribute("src"):
            return False
        roots = child_elements(inst)
        if len(roots) != 1 or roots[0].tagName != "root":
            return False
        got = [[(c.tagName, text_of(c)) for c in child_elements(it)] for it in child_elements(roots[0])]
        if got != items:
            return False
    # wiring: each select reads its own list
    body = [c for c in child_elements(root) if c.tagName == "h:body"][0]
    s1 = elements(body, "select1")
    s2 = elements(body, "select")
    if len(s1) != 1 or len(s2) != 1:
        return False
    i1 = elements(s1[0], "itemset")
    i2 = elements(s2[0], "itemset")
    if len(i1) != 1 or len(i2) != 1:
        return False
    return i1[0].getAttribute("nodeset") == "instance('l1')/root/item" and i2[0].getAttribute("nodeset") == "instance('l2')/root/item"


specialise(
    "C09",
    "a.list-fidelity",
    c09_lists,
    {"order": [0, 1, 2], "xa0": [False, True]},
    timeout=400,
    kernel=K,
    shims=("S1", "S2", "S3", "S4"),
    symbolic="sparse presence of label and two extra columns on three choice rows (6 symbolic booleans) and the shared tracer character of all 10 cell texts",
    bounds="3 lists (l1: 2 choices, l2: 1, unused l3: 1); row interleaving and one flag fixed per instance",
    weight=100,
)


def c09_wiring(variant: int, f0: int, f1: int, g0: int, g1: int, sd: int) -> bool:
    """
    vpre: 33 <= f0 <= 126 and f0 != 36 and 33 <= f1 <= 126 and f1 != 36
    vpre: 33 <= g0 <= 126 and g0 != 36 and 33 <= g1 <= 126 and g1 != 36
    vpre: 48 <= sd <= 57
    vpost: _ == True
    """
    F1, F2 = S(f0, f1), S(g0, g1)
    q1 = {"type": "select_one l1", "name": "q1", "label": "Q1"}
    q2 = {"type": "select_one l2", "name": "q2", "label": "Q2"}
    exp1 = "instance('l1')/root/item"
    exp2 = "instance('l2')/root/item"
    if variant == 0:  # both filtered, independently
        q1["choice_filter"] = F1
        q2["choice_filter"] = F2
        exp1 += "[" + F1 + "]"
        exp2 += "[" + F2 + "]"
    elif variant == 1:  # only the second filtered
        q2["choice_filter"] = F2
        exp2 += "[" + F2 + "]"
    elif variant == 2:  # randomize on q1 with numeric seed, filter on q2
        q1["parameters"] = "randomize=true, seed=" + S(sd, sd)
        q2["choice_filter"] = F2
        exp1 = "randomize(" + exp1 + ", " + S(sd, sd) + ")"
        exp2 += "[" + F2 + "]"
    elif variant == 3:  # randomize + filter on q1, nothing on q2
        q1["parameters"] = "randomize=true"
        q1["choice_filter"] = F1
        exp1 = "randomize(" + exp1 + "[" + F1 + "])"
    elif variant == 4:  # seed from a reference
        q1["parameters"] = "randomize=true,seed=${q0}"
        exp1 = "randomize(" + exp1 + ", /data/q0)"
    wb = {
        "survey": [{"type": "integer", "name": "q0", "label": "Q0"}, q1, q2],
        "choices": [
            {"list_name": "l1", "name": "a", "label": "A", "f": "1"},
            {"list_name": "l2", "name": "b", "label": "B", "f": "2"},
        ],
    }
    survey, _w, _js = build_survey(wb)
    root = survey.xml()
    sels = elements(root, "select1")
    if len(sels) != 2:
        return False
    got = {}
    for s in sels:
        its = [c for c in child_elements(s) if c.tagName == "itemset"]
        if len(its) != 1:
            return False
        got[s.getAttribute("ref")] = its[0]
    if sorted(got.keys()) != ["/data/q1", "/data/q2"]:
        return False
    if got["/data/q1"].getAttribute("nodeset") != exp1 or got["/data/q2"].getAttribute("nodeset") != exp2:
        return False
    for it in got.values():
        kids = [(c.tagName, c.getAttribute("ref")) for c in child_elements(it)]
        if kids != [("value", "name"), ("label", "label")]:
            return False
    return True


specialise(
    "C09",
    "b.wiring",
    c09_wiring,
    {"variant": [0, 1, 2, 3, 4]},
    timeout=300,
    kernel=K,
    shims=("S1", "S2", "S3", "S4"),
    symbolic="two independent choice_filter texts of 2 symbolic characters; one symbolic seed digit",
    bounds="two select_one questions on two lists; filter/randomize/seed variant fixed per instance",
    weight=60,
)


@ob(
    "C09",
    "b.or-other",
    timeout=300,
    kernel=K,
    shims=("S1", "S2", "S3", "S4"),
    symbolic="choice labels (shared symbolic tracer character); select kind (one/multiple) boolean; list already containing an 'other' choice (boolean)",
    bounds="one or_other select on a 2-choice list",
    weight=60,
)
def c09_or_other(multi: bool, has_other: bool, c0: int) -> bool:
    """
    pre: 33 <= c0 <= 126 and c0 != 36
    post: _ == True
    """
    A, B = S(c0, 49), S(c0, 50)
    ch = [{"list_name": "l1", "name": "a", "label": A}, {"list_name": "l1", "name": "other" if has_other else "b", "label": B}]
    t = ("select_multiple" if multi else "select_one") + " l1 or_other"
    survey, _w, _js = build_survey({"survey": [{"type": t, "name": "q1", "label": "Q1"}], "choices": ch})
    root = survey.xml()
    inst = [i for i in elements(root, "instance") if i.getAttribute("id") == "l1"]
    if len(inst) != 1:
        return False
    items = [[(c.tagName, text_of(c)) for c in child_elements(it)] for it in elements(inst[0], "item")]
    want = [[("name", "a"), ("label", A)], [("name", "other" if has_other else "b"), ("label", B)]]
    if not has_other:
        want.append([("name", "other"), ("label", "Other")])
    if items != want:
        return False
    prim = child_elements(elements(root, "instance")[0])[0]
    names = [c.tagName for c in child_elements(prim)]
    if names != ["q1", "q1_other", "meta"]:
        return False
    ob_ = [b for b in elements(root, "bind") if b.getAttribute("nodeset") == "/data/q1_other"]
    if len(ob_) != 1 or ob_[0].getAttribute("relevant") != "selected(../q1, 'other')":
        return False
    inputs = [e for e in elements(root, "input") if e.getAttribute("ref") == "/data/q1_other"]
    return len(inputs) == 1


STEMS = ["ab", "a_b", "A1", "x-y", "data"]


def c09_sources(kind: int, si: int, s0: int, s1: int) -> bool:
    """
    vpre: 0 <= si <= 4
    vpre: 97 <= s0 <= 122 and 97 <= s1 <= 122
    vpost: _ == True
    """
    # The stem is chosen by a symbolic index from a menu: the type cell is parsed by RE_SELECT
    # (CrossHair's regex engine mis-handles its nested alternation on a symbolic tail: a
    # non-reproducing KeyError, caught by the replay) and instance ids are stored as dict keys
    # in Survey._generate_instances (hashing realises a symbolic id).
    stem = STEMS[si]
    lab = S(s0, s1)
    rows = [{"type": "text", "name": "qq0", "label": lab}]
    if kind == 0:
        rows.append({"type": "select_one_from_file " + stem + ".csv", "name": "q1", "label": "Q1"})
        uri = "jr://file-csv/" + stem + ".csv"
    elif kind == 1:
        rows.append({"type": "select_one_from_file " + stem + ".xml", "name": "q1", "label": "Q1"})
        uri = "jr://file/" + stem + ".xml"
    elif kind == 2:
        rows.append({"type": "select_multiple_from_file " + stem + ".geojson", "name": "q1", "label": "Q1"})
        uri = "jr://file/" + stem + ".geojson"
    elif kind == 3:
        rows.append({"type": "xml-external", "name": stem})
        uri = "jr://file/" + stem + ".xml"
    elif kind == 4:
        rows.append({"type": "csv-external", "name": stem})
        uri = "jr://file-csv/" + stem + ".csv"
    elif kind == 5:
        rows.append({"type": "calculate", "name": "q1", "calculation": "pulldata('" + stem + "', 'a', 'b', 'c')"})
        uri = "jr://file-csv/" + stem + ".csv"
    elif kind == 6:  # same file used twice -> one instance
        rows.append({"type": "select_one_from_file " + stem + ".csv", "name": "q1", "label": "Q1"})
        rows.append({"type": "calculate", "name": "q2", "calculation": "pulldata('" + stem + "', 'a', 'b', 'c')"})
        uri = "jr://file-csv/" + stem + ".csv"
    else:  # same id, different URI -> rejected
        rows.append({"type": "select_one_from_file " + stem + ".xml", "name": "q1", "label": "Q1"})
        rows.append({"type": "calculate", "name": "q2", "calculation": "pulldata('" + stem + "', 'a', 'b', 'c')"})
        uri = None
    try:
        survey, _w, _js = build_survey({"survey": rows})
        root = survey.xml()
    except PyXFormError as e:
        return uri is None and stem in str(e)
    if uri is None:
        return False
    model = elements(root, "model")[0]
    ext = [i for i in child_elements(model) if i.tagName == "instance" and i.hasAttribute("src")]
    if len(ext) != 1:
        return False
    return ext[0].getAttribute("id") == stem and ext[0].getAttribute("src") == uri and len(child_elements(ext[0])) == 0


specialise(
    "C09",
    "c.sources",
    c09_sources,
    {"kind": [0, 1, 2, 3, 4, 5, 6, 7]},
    timeout=400,
    kernel=K,
    shims=("S1", "S2", "S3", "S4"),
    symbolic="external file stem chosen by a symbolic index from a 5-name menu (ids are dict keys / regex-parsed: concrete), 2-letter label tracer on a neighbouring row",
    bounds="source kind fixed per instance: select_one_from_file csv/xml, select_multiple_from_file geojson, xml-external, csv-external, pulldata, same file twice, same id with different URI",
    weight=80,
)


# ---- b': value/label parameters and file-type defaults of select-from-file ---------------------------
def c09_from_file(ext: int, multi: bool, p_val: bool, p_lab: bool, p_rand: bool, v0: int, v1: int) -> bool:
    """
    vpre: 97 <= v0 <= 122 and 97 <= v1 <= 122
    vpost: _ == True
    """
    e = ["csv", "xml", "geojson"][ext]
    V = S(v0, v1)
    # documented defaults: name/label, and id/title for GeoJSON feature collections
    want_v, want_l = ("id", "title") if ext == 2 else ("name", "label")
    params = []
    if p_val:
        params.append("value=" + V)
        want_v = V
    if p_lab:
        params.append("label=" + V + "x")
        want_l = V + "x"
    if p_rand:
        params.append("randomize=true")
    q = {"type": ("select_multiple" if multi else "select_one") + "_from_file ab." + e, "name": "q1", "label": "Q1"}
    if params:
        q["parameters"] = " ".join(params)
    survey, _w, _js = build_survey({"survey": [q]})
    root = survey.xml()
    sels = elements(root, "select" if multi else "select1")
    if len(sels) != 1:
        return False
    its = [c for c in child_elements(sels[0]) if c.tagName == "itemset"]
    if len(its) != 1:
        return False
    ns = "instance('ab')/root/item"
    if p_rand:
        ns = "randomize(" + ns + ")"
    if its[0].getAttribute("nodeset") != ns:
        return False
    kids = [(c.tagName, c.getAttribute("ref")) for c in child_elements(its[0])]
    return kids == [("value", want_v), ("label", want_l)]


specialise(
    "C09",
    "b.from-file-params",
    c09_from_file,
    {"ext": [0, 1, 2]},
    timeout=300,
    kernel=K,
    shims=("S1", "S2", "S3", "S4"),
    symbolic="presence of value=, label= and randomize= in the parameters cell (3 symbolic booleans), select_one / select_multiple (boolean), a 2-letter parameter value",
    bounds="external file type fixed per instance (csv, xml, geojson: the defaults differ)",
    weight=60,
)


# ---- d: itemsets CSV for select_one_external at any nesting -------------------------------------------
shims.s6_csv_writer()


def _csv_rows(text: str):
    """Parser for the QUOTE_ALL dialect, written from RFC 4180."""
    rows, row, i, n = [], [], 0, len(text)
    while i < n:
        if text[i] != '"':
            return None
        i += 1
        cell = ""
        while True:
            if i >= n:
                return None
            if text[i] == '"':
                if i + 1 < n and text[i + 1] == '"':
                    cell += '"'
                    i += 2
                    continue
                i += 1
                break
            cell += text[i]
            i += 1
        row.append(cell)
        if text[i : i + 1] == ",":
            i += 1
        elif text[i : i + 2] == "\r\n":
            i += 2
            rows.append(row)
            row = []
        else:
            return None
    return rows if not row else None


def c09_itemsets(nest: int, hdr: bool, pa1: bool, pb0: bool, pb2: bool, c0: int, c1: int, lname: int = 0, twice: bool = False) -> bool:
    """
    vpre: 33 <= c0 <= 126 and 33 <= c1 <= 126
    vpost: _ == True
    """
    from pyxform.utils import external_choices_to_csv, has_external_choices
    from pyxform.xls2json import workbook_to_json
    from pyxform.xls2json_backends import get_xlsform

    sel = {"type": "select_one_external cities", "name": "q1", "label": "Q1", "choice_filter": "state=${st}"}
    st = {"type": "text", "name": "st", "label": "ST"}
    wrap = [[], ["group"], ["repeat"], ["repeat", "group"], ["group", "group"]][nest]
    rows = [st]
    for i, w in enumerate(wrap):
        rows.append({"type": "begin " + w, "name": f"w{i}", "label": "W"})
    rows.append(sel)
    for w in reversed(wrap):
        rows.append({"type": "end " + w})
    # sparse sheet: cells may be absent; texts carry symbolic characters (quote and comma included)
    LN = ["list_name", "list name"][lname]  # documented spellings of the list-name header
    r0 = {LN: "cities", "name": "n0", "zone": "z" + S(c0)}  # names are dict/set keys downstream: concrete
    r1 = {LN: "cities", "name": "m1", "label": 'L, "q" ' + S(c1)}  # comma and quote: concrete, the tracer is symbolic
    if pa1:
        r0["label"] = "A" + S(c1)
    if pb0:
        r1["state"] = "s" + S(c0)
    if pb2:
        r0["state"] = "t"
    ext = [dict(r0), dict(r1)]  # the expected image is taken from a copy: the rows handed to pyxform may not be changed by it either
    wb = {"survey": rows, "external_choices": [r0, r1]}
    header = [LN, "name", "zone", "label", "state"]
    if hdr:
        wb["external_choices_header"] = [{k: None for k in header}]
    data = get_xlsform(xlsform=wb)
    js = workbook_to_json(workbook_dict=data, form_name="data", warnings=[])
    if not has_external_choices(json_struct=js):
        return False  # convert() would write no itemsets.csv although the form uses external choices
    text = external_choices_to_csv(workbook_dict=data)
    if text is None:
        return False
    if [r0, r1] != ext:
        return False  # the caller's rows were modified in place
    if twice:
        # the same workbook dict converted a second time gives the same itemsets
        data2 = get_xlsform(xlsform=wb)
        workbook_to_json(workbook_dict=data2, form_name="data", warnings=[])
        if external_choices_to_csv(workbook_dict=data2) != text:
            return False
    # expected sheet image: header row (given, or first appearance order), then every cell under
    # its own header, absent cells empty; rendered in the QUOTE_ALL dialect (RFC 4180)
    head = list(header)
    if not hdr:
        head = []
        for r in ext:
            for k in r:
                if k not in head:
                    head.append(k)

    def line(cells):
        return ",".join('"' + c.replace('"', '""') + '"' for c in cells) + "\r\n"

    want = line(head)
    for r in ext:
        want += line([r.get(k, "") for k in head])
    return text == want


specialise(
    "C09",
    "d.itemsets-csv",
    c09_itemsets,
    {"nest": [0, 1, 2, 3, 4], "lname": [0], "twice": [False]},
    timeout=400,
    kernel=("pyxform.utils:external_choices_to_csv", "pyxform.utils:has_external_choices", "pyxform.xls2json:workbook_to_json", "pyxform.xls2json_backends:get_xlsform"),
    shims=("S1", "S2", "S4", "S6"),
    symbolic="presence of optional cells on two external_choices rows (3 symbolic booleans: sparse rows), explicit header row supplied or not (boolean), two symbolic printable ASCII characters inside cell texts (quote and comma included; one cell also holds a literal comma and quotes)",
    bounds="nesting of the select_one_external question fixed per instance (top level, group, repeat, group in repeat, group in group); 2 sheet rows x 5 columns; CSV parsed back with an RFC 4180 reader",
    weight=80,
)

specialise(
    "C09",
    "d.itemsets-csv-spellings",
    c09_itemsets,
    {"nest": [0, 3], "lname": [0, 1], "twice": [False, True]},
    skip_if=lambda fx: fx["lname"] == 0 and not fx["twice"],
    reach_if=lambda fx: fx["nest"] == 0 and fx["lname"] == 1 and fx["twice"],
    timeout=400,
    kernel=("pyxform.utils:external_choices_to_csv", "pyxform.utils:has_external_choices", "pyxform.xls2json:workbook_to_json", "pyxform.xls2json_backends:get_xlsform", "pyxform.parsing.sheet_headers:dealias_and_group_headers"),
    shims=("S1", "S2", "S4", "S6"),
    symbolic="as d.itemsets-csv",
    bounds="list-name header spelled 'list_name' / 'list name' (fixed per instance); the caller's row dicts must be left unchanged; optionally the same workbook dict is converted a second time and must give the same CSV",
    weight=80,
)
