"""C19 — entity declarations follow the documented create/update decision table."""
from __future__ import annotations

from harness import shims
from harness.common import S, build_survey, child_elements, elements
from vf.registry import ob, ob_e2, specialise

shims.standard()

from pyxform.errors import PyXFormError  # noqa: E402

OUTSIDE = "expressions longer than 2 characters (opaque tracers); more than one save_to cell per form; entity declarations combined with repeats deeper than 1"
ASSUMPTIONS = [
    "R0 cell texts over U+0021-U+007E without '$'",
    "S1-S4 shims inside CrossHair; witnesses re-run without them",
    "reference decision table written from the property statement and the ODK entities specification (spec version 2024.1.0)",
]
K = (
    "pyxform.entities.entities_parsing:get_entity_declaration",
    "pyxform.entities.entities_parsing:get_validated_dataset_name",
    "pyxform.entities.entities_parsing:validate_entities_columns",
    "pyxform.entities.entities_parsing:validate_entity_saveto",
    "pyxform.entities.entity_declaration:EntityDeclaration.xml_instance",
    "pyxform.entities.entity_declaration:EntityDeclaration.xml_bindings",
    "pyxform.xls2json:workbook_to_json",
    "pyxform.survey:Survey.get_nsmap",
    "pyxform.survey:Survey.xml_model",
)
ENT_NS = "http://www.opendatakit.org/xforms/entities"
ENT_VERSION = "2024.1.0"


def _attrs(e):
    return {k: e.getAttribute(k) for k in e.attributes.keys()}


def _same(got: dict, want: dict) -> bool:
    if sorted(got.keys()) != sorted(want.keys()):
        return False
    for k in want:
        if got[k] != want[k]:
            return False
    return True


def reference_invalid(pe: bool, pc: bool, pu: bool, pl: bool) -> bool:
    """Documented invalid combinations."""
    if pu and not pe:
        return True  # updating needs an entity_id
    if pe and pc and not pu:
        return True  # id + create condition needs an update condition
    if not pe and not pl:
        return True  # creating needs a label
    return False


@ob(
    "C19",
    "a.table",
    timeout=400,
    kernel=K,
    shims=("S1", "S2", "S3", "S4"),
    symbolic="presence of entity_id/create_if/update_if/label (4 symbolic booleans = all 16 combinations), a custom namespaces setting present (boolean); each expression 2 symbolic characters",
    bounds="one-question form + entities sheet with dataset 'ds'; expressions length 2 over U+0021-U+007E minus '$'",
    weight=100,
)
def c19_table(pe: bool, pc: bool, pu: bool, pl: bool, with_ns: bool, e0: int, e1: int, c0: int, c1: int, u0: int, u1: int, l0: int, l1: int) -> bool:
    """
    pre: 33 <= e0 <= 126 and e0 != 36 and 33 <= e1 <= 126 and e1 != 36
    pre: 33 <= c0 <= 126 and c0 != 36 and 33 <= c1 <= 126 and c1 != 36
    pre: 33 <= u0 <= 126 and u0 != 36 and 33 <= u1 <= 126 and u1 != 36
    pre: 33 <= l0 <= 126 and l0 != 36 and 33 <= l1 <= 126 and l1 != 36
    post: _ == True
    """
    E, C, U, L = S(e0, e1), S(c0, c1), S(u0, u1), S(l0, l1)
    ent = {"dataset": "ds"}
    if pe:
        ent["entity_id"] = E
    if pc:
        ent["create_if"] = C
    if pu:
        ent["update_if"] = U
    if pl:
        ent["label"] = L
    wb = {"survey": [{"type": "text", "name": "q1", "label": "L1"}], "entities": [ent]}
    if with_ns:
        wb["settings"] = [{"namespaces": 'ex="http://example.org/x"'}]
    invalid = reference_invalid(pe, pc, pu, pl)
    try:
        survey, _w, _js = build_survey(wb)
        root = survey.xml()
    except PyXFormError:
        return invalid
    if invalid:
        return False
    # namespace + version declared
    if root.getAttribute("xmlns:entities") != ENT_NS:
        return False
    if with_ns and root.getAttribute("xmlns:ex") != "http://example.org/x":
        return False
    model = elements(root, "model")[0]
    if model.getAttribute("entities:entities-version") != ENT_VERSION:
        return False
    ents = elements(root, "entity")
    if len(ents) != 1:
        return False
    ent_node = ents[0]
    if ent_node.parentNode.tagName != "meta":
        return False
    creating = pc or not pe
    want = {"dataset": "ds", "id": ""}
    if pe:
        want.update({"update": "1", "baseVersion": "", "trunkVersion": "", "branchId": ""})
    if creating:
        want["create"] = "1"
    if not _same(_attrs(ent_node), want):
        return False
    kids = [c.tagName for c in child_elements(ent_node)]
    if kids != (["label"] if pl else []):
        return False
    base = "/data/meta/entity"
    want_binds = {}
    idb = {"nodeset": base + "/@id", "type": "string", "readonly": "true()"}
    if pe:
        idb["calculate"] = E
    want_binds[base + "/@id"] = idb
    if pc:
        want_binds[base + "/@create"] = {"nodeset": base + "/@create", "type": "string", "readonly": "true()", "calculate": C}
    if pu:
        want_binds[base + "/@update"] = {"nodeset": base + "/@update", "type": "string", "readonly": "true()", "calculate": U}
    if pe:
        item = "instance('ds')/root/item[name=" + E + "]"
        for attr, col in (("baseVersion", "__version"), ("trunkVersion", "__trunkVersion"), ("branchId", "__branchId")):
            want_binds[base + "/@" + attr] = {"nodeset": base + "/@" + attr, "type": "string", "readonly": "true()", "calculate": item + "/" + col}
    if pl:
        want_binds[base + "/label"] = {"nodeset": base + "/label", "type": "string", "readonly": "true()", "calculate": L}
    got_binds = [b for b in child_elements(model) if b.tagName == "bind" and b.getAttribute("nodeset").startswith(base)]
    if len(got_binds) != len(want_binds):
        return False
    for b in got_binds:
        ns = b.getAttribute("nodeset")
        if ns not in want_binds or not _same(_attrs(b), want_binds[ns]):
            return False
    svs = [s for s in child_elements(model) if s.tagName == "setvalue" and s.getAttribute("ref") == base + "/@id"]
    if creating:
        if len(svs) != 1:
            return False
        sv = _attrs(svs[0])
        if sv.get("event") != "odk-instance-first-load" or sv.get("value") != "uuid()":
            return False
    elif svs:
        return False
    return True


def c19_saveto(kind: int, n: int, has_entities: bool, s0: int, s1: int, s2: int) -> bool:
    """
    vpre: 33 <= s0 <= 126 and s0 != 36 and 95 <= s1 <= 122 and 33 <= s2 <= 126 and s2 != 36
    vpost: _ == True
    """
    from spec.xmlnames import is_ncname

    P = S(*((s0, s1, s2)[:n]))
    q = {"type": "text", "name": "q1", "label": "L1"}
    other = {"type": "text", "name": "q2", "label": "L2"}
    if kind == 0:  # plain question
        q["save_to"] = P
        rows = [q, other]
        target = "/data/q1"
    elif kind == 1:  # question inside a group
        q["save_to"] = P
        rows = [{"type": "begin group", "name": "g", "label": "G"}, q, {"type": "end group"}, other]
        target = "/data/g/q1"
    elif kind == 2:  # question inside a repeat
        q["save_to"] = P
        rows = [{"type": "begin repeat", "name": "r", "label": "R"}, q, {"type": "end repeat"}, other]
        target = None
    elif kind == 3:  # on a group row
        rows = [{"type": "begin group", "name": "g", "label": "G", "save_to": P}, q, {"type": "end group"}, other]
        target = None
    elif kind == 4:  # on a repeat row
        rows = [{"type": "begin repeat", "name": "r", "label": "R", "save_to": P}, q, {"type": "end repeat"}, other]
        target = None
    elif kind == 5:  # question in a group nested in a repeat
        q["save_to"] = P
        rows = [{"type": "begin repeat", "name": "r", "label": "R"}, {"type": "begin group", "name": "g", "label": "G"}, q, {"type": "end group"}, {"type": "end repeat"}, other]
        target = None
    else:  # question in a repeat nested in a group, after a closed repeat
        q["save_to"] = P
        rows = [{"type": "begin group", "name": "g", "label": "G"}, {"type": "begin repeat", "name": "r", "label": "R"}, other, {"type": "end repeat"}, q, {"type": "end group"}]
        target = "/data/g/q1"
    wb = {"survey": rows}
    if has_entities:
        wb["entities"] = [{"dataset": "ds", "label": "a"}]
    lower = P.lower()
    name_ok = lower != "name" and lower != "label" and not P.startswith("__") and is_ncname_ascii(P)
    accept = has_entities and target is not None and name_ok
    try:
        survey, _w, _js = build_survey(wb)
        root = survey.xml()
    except PyXFormError:
        return not accept
    if not accept:
        return False
    model = elements(root, "model")[0]
    hits = [b for b in child_elements(model) if b.tagName == "bind" and b.hasAttribute("entities:saveto")]
    if len(hits) != 1:
        return False
    return hits[0].getAttribute("nodeset") == target and hits[0].getAttribute("entities:saveto") == P


def is_ncname_ascii(s: str) -> bool:
    """XML NCName restricted to the ASCII alphabet used in this obligation (reference)."""
    if len(s) == 0:
        return False
    c = s[0]
    if not (("a" <= c <= "z") or ("A" <= c <= "Z") or c == "_"):
        return False
    for c in s[1:]:
        if not (("a" <= c <= "z") or ("A" <= c <= "Z") or c == "_" or ("0" <= c <= "9") or c == "-" or c == "."):
            return False
    return True


specialise(
    "C19",
    "b.saveto",
    c19_saveto,
    {"kind": [0, 1, 2, 3, 4, 5, 6], "n": [3]},
    tiers=("thorough",),
    timeout=2400,
    kernel=K,
    shims=("S1", "S2", "S3", "S4"),
    symbolic="save_to cell of 3 symbolic characters; entities sheet present (boolean)",
    bounds="row kind fixed per instance; property name length 3 over U+0021-U+007E minus '$'",
    weight=1500,
)
specialise(
    "C19",
    "b.saveto",
    c19_saveto,
    {"kind": [0, 1, 2, 3, 4, 5, 6], "n": [2]},
    timeout=400,
    kernel=K,
    shims=("S1", "S2", "S3", "S4"),
    symbolic="save_to cell of 2 symbolic characters (first over U+0021-U+007E minus '$', second over U+005F-U+007A so that the reserved '__' prefix is reachable); entities sheet present (boolean)",
    bounds="row kind fixed per instance: question / question in group / question in repeat / group row / repeat row / question in group inside repeat / question after a closed repeat inside a group; property name length 2 over U+0021-U+007E minus '$'",
    weight=80,
)


def c19_dataset(n: int, d0: int, d1: int, d2: int) -> bool:
    """
    vpre: 33 <= d0 <= 126 and d0 != 36 and 33 <= d1 <= 126 and d1 != 36 and 33 <= d2 <= 126 and d2 != 36
    vpost: _ == True
    """
    D = S(*((d0, d1, d2)[:n]))
    wb = {"survey": [{"type": "text", "name": "q1", "label": "L1"}], "entities": [{"dataset": D, "label": "a"}]}
    ok = (not D.startswith("__")) and ("." not in D) and is_ncname_or_qname_ascii(D)
    try:
        survey, _w, _js = build_survey(wb)
        root = survey.xml()
    except PyXFormError:
        return not ok
    if not ok:
        return False
    ents = elements(root, "entity")
    return len(ents) == 1 and ents[0].getAttribute("dataset") == D


def is_ncname_or_qname_ascii(s: str) -> bool:
    parts = s.split(":")
    if len(parts) > 2:
        return False
    for p in parts:
        if not is_ncname_ascii(p):
            return False
    return True


specialise(
    "C19",
    "c.dataset",
    c19_dataset,
    {"n": [3]},
    tiers=("thorough",),
    timeout=2400,
    kernel=K,
    shims=("S1", "S2", "S3", "S4"),
    symbolic="dataset (list_name) cell of 3 symbolic characters",
    bounds="n = 3 over U+0021-U+007E minus '$'",
    weight=1500,
)
specialise(
    "C19",
    "c.dataset",
    c19_dataset,
    {"n": [1, 2]},
    timeout=400,
    kernel=K,
    shims=("S1", "S2", "S3", "S4"),
    symbolic="dataset (list_name) cell of n symbolic characters",
    bounds="n in 1..2 over U+0021-U+007E minus '$'",
    weight=60,
)


UNKNOWN_COLS = ["entity_ids", "update", "create-if", "Label x", "name", "type", "parameters", "Name", "save_to", "list_name", "parent", "relevant"]  # near misses and columns that belong to other sheets


def c19_shape(extra_col: bool, two_rows: bool, hi: int, v0: int, v1: int) -> bool:
    """
    pre: 0 <= hi <= 11
    pre: 33 <= v0 <= 126 and v0 != 36 and 33 <= v1 <= 126 and v1 != 36
    post: _ == True
    """
    H = UNKNOWN_COLS[hi]
    ent = {"dataset": "ds", "label": "a"}
    if extra_col:
        ent[H] = S(v0, v1)
    rows = [ent, {"dataset": "ds2", "label": "b"}] if two_rows else [ent]
    wb = {"survey": [{"type": "text", "name": "q1", "label": "L1"}], "entities": rows}
    try:
        survey, _w, _js = build_survey(wb)
        survey.xml()
    except PyXFormError as e:
        if not (extra_col or two_rows):
            return False
        if extra_col and not two_rows:
            return H.lower() in str(e).lower()  # the message may cite the normalised spelling
        return True
    return not (extra_col or two_rows)


ob(
    "C19",
    "e.sheet-shape",
    timeout=300,
    kernel=K,
    shims=("S1", "S2", "S3", "S4"),
    symbolic="unknown entities column (symbolic index into 12 headers: near misses and column names of the survey/choices sheets; header text itself concrete because dict keys are hashed), its 2-character cell value, presence flag, second entity row flag",
    bounds="12 unknown headers; value length 2",
    weight=40,
)(c19_shape)



# ---- b': save_to on a section row, in every documented spelling of begin group / begin repeat ----------
SECTION_SPELLINGS = [("begin group", "end group"), ("begin_group", "end_group"), ("Begin Group", "End Group"), ("begin repeat", "end repeat"), ("begin_repeat", "end_repeat"), ("begin lgroup", "end lgroup"), ("begin_lgroup", "end_lgroup"), ("begin looped group", "end looped group")]


@ob(
    "C19",
    "b.saveto-section-spellings",
    timeout=300,
    kernel=K,
    shims=("S1", "S2", "S3", "S4"),
    symbolic="spelling of the section's type cell chosen by a symbolic index over 8 documented begin/end spellings (group, repeat and their legacy aliases), a label tracer character",
    bounds="save_to written on the begin row of a group or repeat: must be refused in every spelling",
    weight=40,
)
def c19_saveto_sections(sp: int, c0: int) -> bool:
    """
    pre: 0 <= sp <= 7
    pre: 97 <= c0 <= 122
    post: _ == True
    """
    b, e = SECTION_SPELLINGS[sp]
    rows = [{"type": b, "name": "s", "label": S(c0, 65), "save_to": "p1"}, {"type": "text", "name": "q1", "label": "L"}, {"type": e}]
    try:
        survey, _w, _js = build_survey({"survey": rows, "entities": [{"dataset": "ds", "label": "a"}]})
        survey.xml()
    except PyXFormError:
        return True
    return False


# ---- f: two conversions in one process (round 3) -----------------------------------------------------
import inspect as _insp  # noqa: E402
import re as _re  # noqa: E402

_src = _insp.getsource(c19_table)
_src = _src[_src.index("def c19_table(") :].replace("def c19_table(", "def _c19_table_plain(", 1)
_src = _re.sub(r'    """.*?"""\n', "", _src, count=1, flags=_re.S)
exec(_src, globals())  # the same oracle without a contract of its own (CrossHair short-circuits contract-bearing callees)


def c19_sequence(pe1: bool, pc1: bool, pu1: bool, pe2: bool, pc2: bool, e0: int, c0: int, l0: int) -> bool:
    """
    vpre: 97 <= e0 <= 122 and 97 <= c0 <= 122 and 97 <= l0 <= 122
    vpost: _ == True
    """
    first = _c19_table_plain(pe1, pc1, pu1, True, False, e0, 49, c0, 49, 117, 49, l0, 49)
    second = _c19_table_plain(pe2, pc2, False, True, False, e0, 50, c0, 50, 117, 50, l0, 50)
    return first and second


specialise(
    "C19",
    "f.sequence",
    c19_sequence,
    {"pe1": [False, True]},
    timeout=500,
    kernel=K,
    shims=("S1", "S2", "S3", "S4"),
    symbolic="declaration kinds of two forms converted one after the other in one process (create / update / upsert with or without conditions: 4 further symbolic booleans), symbolic first character of entity_id, create_if and label",
    bounds="two one-question forms with an entities sheet; both must satisfy the decision-table oracle of a.table (state left behind by the first conversion must not reach the second)",
    weight=80,
)
