"""C16 — the JSON intermediate form is a faithful, reloadable representation."""
from __future__ import annotations

from harness import shims
from harness.common import S, build_survey, tree
from vf.registry import ob, specialise

shims.standard()

from pyxform.builder import create_survey_element_from_dict  # noqa: E402
from pyxform.errors import PyXFormError  # noqa: E402

OUTSIDE = "json.dumps/json.loads themselves (C code): replaced by the obligation that the dict is JSON-typed plus a structural copy that does what a dump/load round trip does to JSON-typed data (new containers, tuples become lists)"
ASSUMPTIONS = [
    "JSON text round trip modelled as jsoncopy(): identity on str/int/bool/None, fresh dict/list, tuple -> list, non-str keys and other types rejected",
    "S1-S4 shims inside CrossHair; witnesses re-run without them",
]
K = (
    "pyxform.xls2json:workbook_to_json",
    "pyxform.builder:SurveyElementBuilder.create_survey_element_from_dict",
    "pyxform.builder:SurveyElementBuilder._create_section_from_dict",
    "pyxform.builder:SurveyElementBuilder._create_question_from_dict",
    "pyxform.survey_element:SurveyElement.to_json_dict",
    "pyxform.survey_element:SurveyElement._delete_keys_from_dict",
    "pyxform.question:Question.to_json_dict",
    "pyxform.question:Option.to_json_dict",
    "pyxform.section:GroupedSection.to_json_dict",
    "pyxform.survey:Survey.to_json_dict",
)


class NotJson(Exception):
    pass


def jsoncopy(o):
    if o is None or isinstance(o, (str, bool, int)):
        return o
    if isinstance(o, float):
        return o
    if isinstance(o, (list, tuple)):
        return [jsoncopy(x) for x in o]
    if isinstance(o, dict):
        out = {}
        for k, v in o.items():
            if not isinstance(k, str):
                raise NotJson("non-string key")
            out[k] = jsoncopy(v)
        return out
    raise NotJson(type(o).__name__)


XCOLS = ["xa", "parent", "extra_data"]


def make_wb(f_group_rel: bool, f_extra: bool, f_trans: bool, f_params: bool, f_repeat: bool, f_settings: bool, T, xcol=0, f_override=False):
    rows = []
    g = {"type": "begin group", "name": "g", "label": T[0]}
    if f_group_rel:
        g["relevant"] = T[1]
    rows.append(g)
    q = {"type": "select_one l1", "name": "q", "hint": T[2]}
    if f_trans:
        q["label::L1"] = T[3]
        q["label::L2"] = T[4]
    else:
        q["label"] = T[3]
    if f_params:
        q["parameters"] = "randomize=true"
    rows.append(q)
    rows.append({"type": "end group"})
    rows.append({"type": "text", "name": "t", "label": T[5], "default": "d", "bind::foo": T[6], "constraint": ". != 1", "constraint_message": T[7]})
    if f_repeat:
        rows += [{"type": "begin repeat", "name": "r", "label": "R", "relevant": T[8]}, {"type": "integer", "name": "u", "label": "U"}, {"type": "end repeat"}]
    ch = {"list_name": "l1", "name": "a", "label": T[9]}
    if f_extra:
        ch[XCOLS[xcol]] = T[10]
    if f_override:
        # rows that override a key of their question-type defaults
        rows.append({"type": "range", "name": "rg", "label": "R", "parameters": "start=0.5 end=5 step=0.5"})
        rows.append({"type": "note", "name": "nt", "label": "N", "read_only": "no"})
        rows.append({"type": "calculate", "name": "cc", "calculation": "1", "bind::type": "int"})
    wb = {"survey": rows, "choices": [ch, {"list_name": "l1", "name": "b", "label": "B"}]}
    if f_settings:
        wb["settings"] = [{"form_title": T[11], "version": "3", "style": "pages", "instance_name": "concat('x')"}]
    return wb


def c16_roundtrip(f_group_rel: bool, f_extra: bool, f_trans: bool, f_params: bool, f_repeat: bool, f_settings: bool, f_override: bool, xcol: int, c0: int) -> bool:
    """
    vpre: 0 <= xcol <= 2
    vpre: 97 <= c0 <= 122
    vpost: _ == True
    """
    T = [S(c0, 65 + i) for i in range(12)]
    wb = make_wb(f_group_rel, f_extra, f_trans, f_params, f_repeat, f_settings, T, xcol, f_override)
    survey, _w, js = build_survey(wb)
    t1 = tree(survey.xml())
    # a: workbook JSON is JSON-typed and reloads to the same XForm
    sa = create_survey_element_from_dict(jsoncopy(js))
    if tree(sa.xml()) != t1:
        return False
    # b: survey dump -> load -> dump is stable and regenerates the same XForm
    j1 = survey.to_json_dict()
    s2 = create_survey_element_from_dict(jsoncopy(j1))
    t2 = tree(s2.xml())
    j2 = s2.to_json_dict()
    if t2 != t1:
        return False
    return jsoncopy(j1) == jsoncopy(j2)


specialise(
    "C16",
    "b.survey-json",
    c16_roundtrip,
    {"f_group_rel": [False, True], "f_extra": [False, True], "f_trans": [False, True], "f_override": [False, True]},
    reach_if=lambda fx: not fx["f_trans"] and not fx["f_override"],
    timeout=500,
    kernel=K,
    shims=("S1", "S2", "S3", "S4"),
    symbolic="presence of translations, parameters, a repeat with relevant, a settings sheet, rows overriding question-type defaults (5 symbolic booleans), name of the extra choices column (symbolic index over xa/parent/extra_data); all 12 cell texts share one symbolic tracer character",
    bounds="form: group(select_one with hint) + text with default/custom bind/constraint message (+ repeat); group relevant, extra choice column, translations and type-default overrides fixed per instance",
    weight=150,
)



def c16_search_reload(after_xml: bool, c0: int) -> bool:
    """
    vpre: 97 <= c0 <= 122
    vpost: _ == True
    """
    wb = {
        "survey": [{"type": "select_one l1", "name": "q", "label": S(c0, 65), "appearance": "search('mydata')"}],
        "choices": [{"list_name": "l1", "name": "a", "label": "A"}],
    }
    survey, _w, _js = build_survey(wb)
    t1 = None
    if after_xml:
        t1 = tree(survey.xml())
    j1 = survey.to_json_dict()
    s2 = create_survey_element_from_dict(jsoncopy(j1))
    t2 = tree(s2.xml())
    if t1 is None:
        t1 = tree(survey.xml())
    return t1 == t2


specialise(
    "C16",
    "b.survey-json-search",
    c16_search_reload,
    {"after_xml": [True]},
    timeout=200,
    kernel=K + ("pyxform.survey:Survey._redirect_is_search_itext",),
    shims=("S1", "S2", "S3", "S4"),
    symbolic="label tracer character",
    bounds="a select_one with a search() appearance dumped after the XForm was generated; expected to reproduce known finding F18",
    weight=20,
    expect="known",
    reach=False,
    classifier=lambda call, replay: "F18" if (replay.get("exception") or {}).get("type") in ("KeyError", "PyXFormError", "TypeError") else None,
)


# ---- c: feature rows: triggers, OSM tags, or_other, shared lists --------------------------------------
OSM_SHEET = [{"list_name": "tags", "name": "building", "label": "Building"}, {"list_name": "tags", "name": "amenity", "label": "Amenity"}]
CH2 = [{"list_name": "l1", "name": "a", "label": "A"}, {"list_name": "l1", "name": "b", "label": "B"}]


def _roundtrip_ok(wb) -> bool:
    survey, _w, js = build_survey(wb)
    t1 = tree(survey.xml())
    sa = create_survey_element_from_dict(jsoncopy(js))
    if tree(sa.xml()) != t1:
        return False
    j1 = survey.to_json_dict()
    s2 = create_survey_element_from_dict(jsoncopy(j1))
    if tree(s2.xml()) != t1:
        return False
    j2 = s2.to_json_dict()
    if jsoncopy(j1) != jsoncopy(j2):
        return False
    # a second dump/load cycle: derived tables must not grow
    s3 = create_survey_element_from_dict(jsoncopy(j2))
    return tree(s3.xml()) == t1 and jsoncopy(s3.to_json_dict()) == jsoncopy(j1)


def c16_features(variant: int, f_trig: bool, f_geo: bool, f_two: bool, f_x: bool, c0: int) -> bool:
    """
    vpre: 97 <= c0 <= 122
    vpost: _ == True
    """
    lab = S(c0, 65)
    rows = [{"type": "text", "name": "t", "label": lab}]
    if f_trig:
        rows.append({"type": "calculate", "name": "c", "calculation": "1 + 1", "trigger": "${t}"})
    if f_two:
        rows.append({"type": "text", "name": "c2", "label": "C2", "calculation": "2", "trigger": "${t}"})
    if f_geo:
        rows.append({"type": "background-geopoint", "name": "g", "trigger": "${t}"})
    wb = {"survey": rows}
    if variant == 0:  # OSM question with tags (no choices sheet)
        if f_x:
            rows.append({"type": "osm tags", "name": "o", "label": lab})
            wb["osm"] = OSM_SHEET
    elif variant == 1:  # selects sharing a list, one with or_other
        rows.append({"type": "select_one l1" + (" or_other" if f_x else ""), "name": "s1", "label": lab})
        rows.append({"type": "select_multiple l1", "name": "s2", "label": "S2"})
        wb["choices"] = CH2
    else:  # trigger targets inside a repeat + dynamic default
        rows += [{"type": "begin repeat", "name": "r", "label": "R"}, {"type": "text", "name": "u", "label": "U", "default": "now()" if f_x else "d"}, {"type": "end repeat"}]
    return _roundtrip_ok(wb)


specialise(
    "C16",
    "c.features",
    c16_features,
    {"variant": [0, 1, 2]},
    timeout=500,
    kernel=K + ("pyxform.builder:SurveyElementBuilder._save_trigger", "pyxform.question:OsmUploadQuestion.__init__", "pyxform.utils:combine_lists"),
    shims=("S1", "S2", "S3", "S4"),
    symbolic="presence of a triggered calculate, a second triggered target, a triggered background-geopoint and one variant-specific feature (4 symbolic booleans), label tracer character",
    bounds="variant fixed per instance: OSM question with tags / two selects sharing a list (or_other) / repeat with static or dynamic default; workbook-JSON reload, survey dump reload, dump stability and a second dump/load cycle",
    weight=120,
)


def c16_known_reload(which: int, c0: int) -> bool:
    """
    vpre: 97 <= c0 <= 122
    vpost: _ == True
    """
    lab = S(c0, 65)
    if which == 0:  # legacy add_none_option setting
        wb = {"survey": [{"type": "select_multiple l1", "name": "m1", "label": lab}], "choices": CH2, "settings": [{"add_none_option": "yes"}]}
    else:  # OSM question in a form that also has a choices sheet
        wb = {"survey": [{"type": "osm tags", "name": "o", "label": lab}, {"type": "select_one l1", "name": "s", "label": "S"}], "osm": OSM_SHEET, "choices": CH2}
    return _roundtrip_ok(wb)


for _w, _fid in ((0, "F21"), (1, "F22")):
    specialise(
        "C16",
        "c.reload-known",
        c16_known_reload,
        {"which": [_w]},
        timeout=200,
        kernel=K,
        shims=("S1", "S2", "S3", "S4"),
        symbolic="label tracer character",
        bounds="form reported by a round-2 reviewer: " + ("add_none_option=yes with a select_multiple (F21)" if _w == 0 else "OSM question next to a choices sheet (F22)") + "; expected to reproduce the known finding",
        weight=20,
        expect="known",
        reach=False,
        classifier=(lambda fid: (lambda call, replay: fid))(_fid),
    )


# ---- d: user-chosen names that coincide with internal field names (round 3) --------------------------
USER_NAMES = ["parent", "control", "extra_data", "bind", "children", "itemset", "name", "L1"]


def c16_user_names(ni: int, where: int, c0: int) -> bool:
    """
    vpre: 0 <= ni <= 7
    vpre: 97 <= c0 <= 122
    vpost: _ == True
    """
    n = USER_NAMES[ni]
    lab = S(c0, 65)
    if where == 0:  # language name on survey and choices labels
        rows = [{"type": "text", "name": "t", "label::" + n: lab, "label::other": "O", "hint::" + n: "H"}, {"type": "select_one l1", "name": "s", "label::" + n: "S", "label::other": "T"}]
        ch = [{"list_name": "l1", "name": "a", "label::" + n: "A", "label::other": "B"}, {"list_name": "l1", "name": "b", "label::" + n: "C", "label::other": "D"}]
        wb = {"survey": rows, "choices": ch}
    elif where == 1:  # custom attribute columns
        rows = [{"type": "begin group", "name": "g", "label": "G", "bind::" + n: "v1"}, {"type": "text", "name": "t", "label": lab, "instance::" + n: "v2", "bind::" + n: "v3"}, {"type": "end group"}]
        wb = {"survey": rows}
    else:  # choice list name / extra choices column
        rows = [{"type": "select_one " + n, "name": "s", "label": lab}]
        ch = [{"list_name": n, "name": "a", "label": "A", n: "x"}, {"list_name": n, "name": "b", "label": "B", n: "y"}]
        wb = {"survey": rows, "choices": ch}
    return _roundtrip_ok(wb)


specialise(
    "C16",
    "d.user-names",
    c16_user_names,
    {"where": [0, 1, 2]},
    timeout=500,
    kernel=K + ("pyxform.survey_element:SurveyElement._delete_keys_from_dict",),
    shims=("S1", "S2", "S3", "S4"),
    symbolic="a user-chosen name taken by a symbolic index from a menu of 8 (7 coincide with internal field names of the element classes: parent, control, extra_data, bind, children, itemset, name), label tracer",
    bounds="the name is used as a language name (survey+choices labels, hint) / as a custom bind:: and instance:: attribute / as a choice list name and extra choices column (fixed per instance); same round-trip oracle as c.features",
    weight=100,
)
