"""C16 — the JSON intermediate form is a faithful, reloadable representation."""
from __future__ import annotations

from harness import shims
from harness.common import S, build_survey, tree
from vf.registry import ob, specialise

shims.standard()

from pyxform.builder import create_survey_element_from_dict  # noqa: E402
from pyxform.errors import PyXFormError  # noqa: E402

OUTSIDE = "json.dumps/json.loads themselves (C code): replaced by the obligation that the dict is JSON-typed plus a structural copy that does what a dump/load round trip does to JSON-typed data (new containers, tuples become lists)"
ASSUMPTIONS = [
    "JSON text round trip modelled as jsoncopy(): identity on str/int/bool/None, fresh dict/list, tuple -> list, non-str keys and other types rejected",
    "S1-S4 shims inside CrossHair; witnesses re-run without them",
]
K = (
    "pyxform.xls2json:workbook_to_json",
    "pyxform.builder:SurveyElementBuilder.create_survey_element_from_dict",
    "pyxform.builder:SurveyElementBuilder._create_section_from_dict",
    "pyxform.builder:SurveyElementBuilder._create_question_from_dict",
    "pyxform.survey_element:SurveyElement.to_json_dict",
    "pyxform.survey_element:SurveyElement._delete_keys_from_dict",
    "pyxform.question:Question.to_json_dict",
    "pyxform.question:Option.to_json_dict",
    "pyxform.section:GroupedSection.to_json_dict",
    "pyxform.survey:Survey.to_json_dict",
)


class NotJson(Exception):
    pass


def jsoncopy(o):
    if o is None or isinstance(o, (str, bool, int)):
        return o
    if isinstance(o, float):
        return o
    if isinstance(o, (list, tuple)):
        return [jsoncopy(x) for x in o]
    if isinstance(o, dict):
        out = {}
        for k, v in o.items():
            if not isinstance(k, str):
                raise NotJson("non-string key")
            out[k] = jsoncopy(v)
        return out
    raise NotJson(type(o).__name__)


XCOLS = ["xa", "parent", "extra_data"]


def make_wb(f_group_rel: bool, f_extra: bool, f_trans: bool, f_params: bool, f_repeat: bool, f_settings: bool, T, xcol=0, f_override=False):
    rows = []
    g = {"type": "begin group", "name": "g", "label": T[0]}
    if f_group_rel:
        g["relevant"] = T[1]
    rows.append(g)
    q = {"type": "select_one l1", "name": "q", "hint": T[2]}
    if f_trans:
        q["label::L1"] = T[3]
        q["label::L2"] = T[4]
    else:
        q["label"] = T[3]
    if f_params:
        q["parameters"] = "randomize=true"
    rows.append(q)
    rows.append({"type": "end group"})
    rows.append({"type": "text", "name": "t", "label": T[5], "default": "d", "bind::foo": T[6], "constraint": ". != 1", "constraint_message": T[7]})
    if f_repeat:
        rows += [{"type": "begin repeat", "name": "r", "label": "R", "relevant": T[8]}, {"type": "integer", "name": "u", "label": "U"}, {"type": "end repeat"}]
    ch = {"list_name": "l1", "name": "a", "label": T[9]}
    if f_extra:
        ch[XCOLS[xcol]] = T[10]
    if f_override:
        # rows that override a key of their question-type defaults
        rows.append({"type": "range", "name": "rg", "label": "R", "parameters": "start=0.5 end=5 step=0.5"})
        rows.append({"type": "note", "name": "nt", "label": "N", "read_only": "no"})
        rows.append({"type": "calculate", "name": "cc", "calculation": "1", "bind::type": "int"})
    wb = {"survey": rows, "choices": [ch, {"list_name": "l1", "name": "b", "label": "B"}]}
    if f_settings:
        wb["settings"] = [{"form_title": T[11], "version": "3", "style": "pages", "instance_name": "concat('x')"}]
    return wb


def c16_roundtrip(f_group_rel: bool, f_extra: bool, f_trans: bool, f_params: bool, f_repeat: bool, f_settings: bool, f_override: bool, xcol: int, c0: int) -> bool:
    """
    vpre: 0 <= xcol <= 2
    vpre: 97 <= c0 <= 122
    vpost: _ == True
    """
    T = [S(c0, 65 + i) for i in range(12)]
    wb = make_wb(f_group_rel, f_extra, f_trans, f_params, f_repeat, f_settings, T, xcol, f_override)
    survey, _w, js = build_survey(wb)
    t1 = tree(survey.xml())
    # a: workbook JSON is JSON-typed and reloads to the same XForm
    sa = create_survey_element_from_dict(jsoncopy(js))
    if tree(sa.xml()) != t1:
        return False
    # b: survey dump -> load -> dump is stable and regenerates the same XForm
    j1 = survey.to_json_dict()
    s2 = create_survey_element_from_dict(jsoncopy(j1))
    t2 = tree(s2.xml())
    j2 = s2.to_json_dict()
    if t2 != t1:
        return False
    return jsoncopy(j1) == jsoncopy(j2)


specialise(
    "C16",
    "b.survey-json",
    c16_roundtrip,
    {"f_group_rel": [False, True], "f_extra": [False, True], "f_trans": [False, True], "f_override": [False, True]},
    reach_if=lambda fx: not fx["f_trans"] and not fx["f_override"],
    timeout=500,
    kernel=K,
    shims=("S1", "S2", "S3", "S4"),
    symbolic="presence of translations, parameters, a repeat with relevant, a settings sheet, rows overriding question-type defaults (5 symbolic booleans), name of the extra choices column (symbolic index over xa/parent/extra_data); all 12 cell texts share one symbolic tracer character",
    bounds="form: group(select_one with hint) + text with default/custom bind/constraint message (+ repeat); group relevant, extra choice column, translations and type-default overrides fixed per instance",
    weight=150,
)



def c16_search_reload(after_xml: bool, c0: int) -> bool:
    """
    vpre: 97 <= c0 <= 122
    vpost: _ == True
    """
    wb = {
        "survey": [{"type": "select_one l1", "name": "q", "label": S(c0, 65), "appearance": "search('mydata')"}],
        "choices": [{"list_name": "l1", "name": "a", "label": "A"}],
    }
    survey, _w, _js = build_survey(wb)
    t1 = None
    if after_xml:
        t1 = tree(survey.xml())
    j1 = survey.to_json_dict()
    s2 = create_survey_element_from_dict(jsoncopy(j1))
    t2 = tree(s2.xml())
    if t1 is None:
        t1 = tree(survey.xml())
    return t1 == t2


specialise(
    "C16",
    "b.survey-json-search",
    c16_search_reload,
    {"after_xml": [True]},
    timeout=200,
    kernel=K + ("pyxform.survey:Survey._redirect_is_search_itext",),
    shims=("S1", "S2", "S3", "S4"),
    symbolic="label tracer character",
    bounds="a select_one with a search() appearance dumped after the XForm was generated; expected to reproduce known finding F18",
    weight=20,
    expect="known",
    reach=False,
    classifier=lambda call, replay: "F18" if (replay.get("exception") or {}).get("type") in ("KeyError", "PyXFormError", "TypeError") else None,
)
