"""Row-sequence model shared by C02 / C04 / C10 / C17 / C20 harnesses.

`rows_for(kinds, label)` builds survey rows for a sequence of row kinds; `expected(kinds)` is the
independent reference begin/end parser (written from the XLSForm documentation): it returns the
expected instance/body shape, or None when the sequence must be rejected.
"""
from __future__ import annotations

from harness.common import child_elements

# row kinds
TEXT, CALC, BGROUP, EGROUP, BREPEAT, EREPEAT, BLANK, SELECT, DISABLED, COMMENT, INTEGER, NOTE = range(12)
KIND_NAMES = ["text", "calculate", "begin group", "end group", "begin repeat", "end repeat", "blank", "select_one l1", "disabled text", "comment", "integer", "note"]

CONTROL_TAG = {TEXT: "input", SELECT: "select1", INTEGER: "input", NOTE: "input"}
BIND_TYPE = {TEXT: "string", CALC: "string", SELECT: "string", INTEGER: "int", NOTE: "string"}


def rows_for(kinds, label: str, disabled: str = "yes"):
    rows = []
    for i, k in enumerate(kinds):
        n = f"n{i}"
        if k == TEXT:
            rows.append({"type": "text", "name": n, "label": label})
        elif k == CALC:
            rows.append({"type": "calculate", "name": n, "calculation": "1+1"})
        elif k == BGROUP:
            rows.append({"type": "begin group", "name": n, "label": label})
        elif k == EGROUP:
            rows.append({"type": "end group"})
        elif k == BREPEAT:
            rows.append({"type": "begin repeat", "name": n, "label": label})
        elif k == EREPEAT:
            rows.append({"type": "end repeat"})
        elif k == BLANK:
            rows.append({})
        elif k == SELECT:
            rows.append({"type": "select_one l1", "name": n, "label": label})
        elif k == DISABLED:
            rows.append({"type": "text", "name": n, "label": label, "disabled": disabled})
        elif k == COMMENT:
            rows.append({"hint": "just a comment"})
        elif k == INTEGER:
            rows.append({"type": "integer", "name": n, "label": label})
        elif k == NOTE:
            rows.append({"type": "note", "name": n, "label": label})
    return rows


CHOICES = [{"list_name": "l1", "name": "a", "label": "A"}, {"list_name": "l1", "name": "b", "label": "B"}]


def expected(kinds):
    """Reference begin/end parser.  Returns (instance_children, body_children) as nested
    lists of tuples, or None if the sequence is unbalanced (must be rejected).
    instance node: (name, kind, [children]) ; body node: (tag, ref, [children])."""
    root_i, root_b = [], []
    stack = [(None, root_i, root_b, "/data")]
    for i, k in enumerate(kinds):
        n = f"n{i}"
        _, ci, cb, path = stack[-1]
        if k in (BLANK, DISABLED, COMMENT):
            continue
        if k in (TEXT, SELECT, INTEGER, NOTE):
            ci.append((n, k, None))
            cb.append((CONTROL_TAG[k], path + "/" + n, None))
        elif k == CALC:
            ci.append((n, k, None))
        elif k == BGROUP:
            ni, nb = [], []
            ci.append((n, k, ni))
            cb.append(("group", path + "/" + n, nb))
            stack.append((BGROUP, ni, nb, path + "/" + n))
        elif k == BREPEAT:
            ni, nb = [], []
            ci.append((n, k, ni))
            cb.append(("group", path + "/" + n, [("repeat", path + "/" + n, nb)]))
            stack.append((BREPEAT, ni, nb, path + "/" + n))
        elif k == EGROUP:
            if stack[-1][0] != BGROUP:
                return None
            stack.pop()
        elif k == EREPEAT:
            if stack[-1][0] != BREPEAT:
                return None
            stack.pop()
    if len(stack) != 1:
        return None
    return root_i, root_b


def has_empty_section(exp_i) -> bool:
    for _n, k, ch in exp_i:
        if ch is not None:
            if len(ch) == 0 or has_empty_section(ch):
                return True
    return False


def is_template(e) -> bool:
    return e.hasAttribute("jr:template")


def instance_shape(e):
    """children of a primary-instance element, template copies and meta removed."""
    out = []
    for c in child_elements(e):
        if is_template(c):
            continue
        if c.tagName == "meta" and e.parentNode is not None and e.parentNode.tagName == "instance":
            continue
        out.append((c.tagName, instance_shape(c)))
    return out


def exp_instance_shape(exp_i):
    return [(n, exp_instance_shape(ch) if ch is not None else []) for n, _k, ch in exp_i]


def templates_ok(e, in_repeat=False) -> bool:
    """Every repeat that is not nested in another repeat is immediately preceded by exactly
    one jr:template copy of the same name and same (name) shape; no other template nodes at
    this level."""
    kids = child_elements(e)
    i = 0
    while i < len(kids):
        c = kids[i]
        if is_template(c):
            if i + 1 >= len(kids) or kids[i + 1].tagName != c.tagName or is_template(kids[i + 1]):
                return False
            if names_shape(c) != names_shape(kids[i + 1]):
                return False
        i += 1
    return True


def names_shape(e):
    return (e.tagName, [names_shape(c) for c in child_elements(e)])


def body_shape(e):
    out = []
    for c in child_elements(e):
        if c.tagName in ("label", "hint", "itemset", "item", "setvalue", "odk:setgeopoint"):
            continue
        ref = c.getAttribute("nodeset") if c.tagName == "repeat" else c.getAttribute("ref")
        out.append((c.tagName, ref, body_shape(c)))
    return out


def exp_body_shape(exp_b):
    return [(t, r, exp_body_shape(ch) if ch is not None else []) for t, r, ch in exp_b]


def repeats_in(exp_i, path="/data", under_repeat=False):
    """(path, under_repeat) of every repeat in the expected instance."""
    out = []
    for n, k, ch in exp_i:
        if ch is not None:
            p = path + "/" + n
            if k == BREPEAT:
                out.append((p, under_repeat))
            out.extend(repeats_in(ch, p, under_repeat or k == BREPEAT))
    return out


def questions_in(exp_i, path="/data"):
    out = []
    for n, k, ch in exp_i:
        if ch is None:
            out.append((path + "/" + n, k))
        else:
            out.extend(questions_in(ch, path + "/" + n))
    return out


def resolve(primary_root, path: str):
    """Nodes of the primary instance (template copies excluded) named by an absolute path;
    '/@x' attribute steps supported."""
    parts = path.split("/")
    if len(parts) < 2 or parts[0] != "" or parts[1] != primary_root.tagName:
        return []
    cur = [primary_root]
    for p in parts[2:]:
        nxt = []
        if p.startswith("@"):
            for e in cur:
                if e.hasAttribute(p[1:]):
                    nxt.append((e, p[1:]))
            cur = nxt
            continue
        for e in cur:
            if isinstance(e, tuple):
                continue
            for c in child_elements(e):
                if c.tagName == p and not is_template(c):
                    nxt.append(c)
        cur = nxt
    return cur


# ---- extended vocabulary for closure / totality harnesses ---------------------------
SELECT_OTHER, BREPEAT_COUNT, DYN_DEFAULT, TRIGGERED, BGROUP_TABLE, SELECT_MULTI, BREPEAT_REFCOUNT, AUDIT = range(12, 20)
KIND_NAMES += ["select_one l1 or_other", "begin repeat (count 3)", "text default now()", "calculate with trigger ${n0}", "begin group table-list", "select_multiple l1", "begin repeat (count ${n0})", "audit"]


def rows_ext(kinds, label: str):
    rows = []
    for i, k in enumerate(kinds):
        n = f"n{i}"
        if k < 12:
            rows.extend(rows_for_one(i, k, label))
        elif k == SELECT_OTHER:
            rows.append({"type": "select_one l1 or_other", "name": n, "label": label})
        elif k == BREPEAT_COUNT:
            rows.append({"type": "begin repeat", "name": n, "label": label, "repeat_count": "3"})
        elif k == DYN_DEFAULT:
            rows.append({"type": "text", "name": n, "label": label, "default": "now()"})
        elif k == TRIGGERED:
            rows.append({"type": "calculate", "name": n, "calculation": "1+1", "trigger": "${n0}"})
        elif k == BGROUP_TABLE:
            rows.append({"type": "begin group", "name": n, "label": label, "appearance": "table-list"})
        elif k == SELECT_MULTI:
            rows.append({"type": "select_multiple l1", "name": n, "label": label})
        elif k == BREPEAT_REFCOUNT:
            rows.append({"type": "begin repeat", "name": n, "label": label, "repeat_count": "${n0}"})
        elif k == AUDIT:  # lives in the meta block under the fixed name 'audit'
            rows.append({"type": "audit", "name": "audit"})
    return rows


def rows_for_one(i, k, label):
    r = rows_for([TEXT] * i + [k], label)
    return r[i:]


EXT_HEADER = {"type": None, "name": None, "label": None, "calculation": None, "disabled": None, "hint": None, "repeat_count": None, "default": None, "trigger": None, "appearance": None}


def closure_violation(root):
    """Reference closure check (C02): returns None when every nodeset/ref is an absolute
    path naming exactly one node of the primary instance, siblings are unique, no node is
    bound twice and no two controls share a ref; otherwise a short reason string."""
    from harness.common import elements

    insts = elements(root, "instance")
    if not insts:
        return "no instance"
    prim_kids = child_elements(insts[0])
    if len(prim_kids) != 1:
        return "primary instance root count"
    prim = prim_kids[0]
    r = _siblings_unique(prim)
    if r:
        return r
    model = elements(root, "model")[0]
    seen_bind = []
    for e in elements(model):
        if e.tagName == "bind":
            ns = e.getAttribute("nodeset")
            if _count(seen_bind, ns):
                return "bound twice: " + ns
            seen_bind.append(ns)
            if len(resolve(prim, ns)) != 1:
                return "bind does not resolve: " + ns
        elif e.tagName in ("setvalue", "odk:setgeopoint", "odk:recordaudio") and e.hasAttribute("ref"):
            if len(resolve(prim, e.getAttribute("ref"))) != 1:
                return "action does not resolve: " + e.getAttribute("ref")
    body = [c for c in child_elements(root) if c.tagName == "h:body"][0]
    seen_ref = []
    for e in elements(body):
        if e.tagName == "repeat":
            ns = e.getAttribute("nodeset")
            if len(resolve(prim, ns)) != 1:
                return "repeat does not resolve: " + ns
            if e.parentNode.getAttribute("ref") != ns:
                return "repeat nodeset differs from its group ref"
            if e.hasAttribute("jr:count"):
                cnt = e.getAttribute("jr:count").strip()
                if len(resolve(prim, cnt)) != 1:
                    return "repeat count does not resolve: " + cnt
        elif e.tagName in ("setvalue", "odk:setgeopoint"):
            if len(resolve(prim, e.getAttribute("ref"))) != 1:
                return "nested action does not resolve: " + e.getAttribute("ref")
        elif e.hasAttribute("ref") and e.tagName not in ("label", "hint", "value", "output"):
            ref = e.getAttribute("ref")
            if _count(seen_ref, ref):
                return "two controls share ref " + ref
            seen_ref.append(ref)
            if len(resolve(prim, ref)) != 1:
                return "control does not resolve: " + ref
    return None


def _count(lst, x) -> bool:
    for y in lst:
        if y == x:
            return True
    return False


def _siblings_unique(e):
    names = []
    for c in child_elements(e):
        if is_template(c):
            continue
        if _count(names, c.tagName):
            return "duplicate sibling " + c.tagName
        names.append(c.tagName)
        r = _siblings_unique(c)
        if r:
            return r
    return None


def names_shape_no_templates(e):
    return (e.tagName, [names_shape_no_templates(c) for c in child_elements(e) if not is_template(c)])
