"""C01 — every successful conversion is well-formed, namespace-valid, with the XForm skeleton."""
from __future__ import annotations

import re

from harness import shims
from harness.common import S, is_xml_char
from vf.registry import ob

shims.standard()

from pyxform.utils import node  # noqa: E402

OUTSIDE = "text longer than the stated length bounds (argued by the per-character homomorphism obligation); documents larger than the listed shapes; binary container parsing"
ASSUMPTIONS = [
    "S2: escape_text_for_xml un-cached inside CrossHair (memoisation transparent; checked with caches on in C14)",
    "XML 1.0 well-formedness oracle = regular-expression content model written from the XML 1.0 productions (CharData / AttValue / Reference)",
]

K_SER = (
    "pyxform.utils:node",
    "pyxform.utils:DetachableElement.writexml",
    "pyxform.utils:PatchedText.writexml",
    "pyxform.utils:escape_text_for_xml",
    "xml.dom.minidom:_write_data",
)

# XML 1.0: content of an element with text only: (CharData | Reference)*, CharData = [^<&]* - ']]>'
_TEXT_RE = re.compile(r"<a>((?:[^<&>]|&amp;|&lt;|&gt;|&quot;)*)</a>\n?")
_ATTR_RE = re.compile(r'<a k="((?:[^<&"]|&amp;|&lt;|&gt;|&quot;)*)"/>\n?')


def _unesc(s: str) -> str:
    return s.replace("&lt;", "<").replace("&gt;", ">").replace("&quot;", '"').replace("&amp;", "&")


def _ser_text_ok(t: str) -> bool:
    n = node("a", t)
    for out in (n.toxml(), n.toprettyxml(indent="  ")):
        m = _TEXT_RE.fullmatch(out)
        if m is None:
            return False
        if _unesc(m.group(1)) != t:
            return False
    return True


def _ser_attr_ok(v: str) -> bool:
    n = node("a", k=v)
    for out in (n.toxml(), n.toprettyxml(indent="  ")):
        m = _ATTR_RE.fullmatch(out)
        if m is None:
            return False
        if _unesc(m.group(1)) != v:
            return False
    return True


# Contiguous code point ranges only: a disjunction in a precondition forks the search at every
# character, so the XML Char production is split into range patterns (one obligation each).
RANGES = {"b": (32, 0xD7FF), "h": (0xE000, 0xFFFD), "a": (0x10000, 0x10FFFF), "c": (9, 10)}
RANGE_DOC = {"b": "U+0020-U+D7FF", "h": "U+E000-U+FFFD", "a": "U+10000-U+10FFFF", "c": "TAB/LF"}


def _mk(kind: str, pattern: str):
    n = len(pattern)
    params = ", ".join(f"c{i}: int" for i in range(n))
    pre = "\n".join(f"    pre: {RANGES[r][0]} <= c{i} <= {RANGES[r][1]}" for i, r in enumerate(pattern))
    body = f"return _ser_{kind}_ok(S({', '.join(f'c{i}' for i in range(n))}))"
    src = f'def c01_{kind}_{pattern}({params}) -> bool:\n    """\n{pre}\n    post: _ == True\n    """\n    {body}\n'
    return src


import linecache  # noqa: E402

_PATTERNS_Q = ["b", "h", "a", "c", "bb", "ab", "cb", "bc"]
_PATTERNS_T = ["bbb", "abb", "bhb", "cbc", "bbbb"]
_TO = {1: 60, 2: 200, 3: 900, 4: 3000}
for _kind in ("text", "attr"):
    for _pat in _PATTERNS_Q + _PATTERNS_T:
        _n = len(_pat)
        _src = _mk(_kind, _pat)
        _fname = f"<vf-generated C01 {_kind} {_pat}>"
        linecache.cache[_fname] = (len(_src), None, _src.splitlines(True), _fname)
        _ns: dict = {}
        exec(compile(_src, _fname, "exec"), globals(), _ns)
        _fn = _ns[f"c01_{_kind}_{_pat}"]
        _fn.__module__ = __name__
        globals()[_fn.__name__] = _fn
        ob(
            "C01",
            f"{'a' if _kind == 'text' else 'b'}.ser-{_kind}[{_pat}]",
            tiers=("quick", "thorough") if _pat in _PATTERNS_Q else ("thorough",),
            timeout=_TO[_n],
            kernel=K_SER,
            shims=("S2",),
            symbolic=f"{_n} code points, position i over " + ", ".join(RANGE_DOC[r] for r in _pat),
            bounds=f"{_kind} length exactly {_n}; XML 1.0 Char (minus CR) covered by the union of the range patterns {_PATTERNS_Q + _PATTERNS_T}; compact and pretty serialisation",
            weight={1: 5, 2: 40, 3: 400, 4: 2000}[_n],
        )(_fn)


# ---- d: NAME-GUARD (E2-R) ---------------------------------------------------------------
from vf.registry import ob_e2  # noqa: E402


def name_guard_run(tier, replay_call=None):
    import z3

    from pyxform.parsing import expression as ex
    from spec import xmlnames as X
    from vf import e2_regex as R

    if tier == "replay":
        w = replay_call["witness"]
        bad = bool(ex.is_xml_tag(w)) and not X.is_qname(w[:-1] if w.endswith("\n") else w)
        return {"verdict": "counterexample" if bad else "confirmed", "replayed": bad, "counterexample": replay_call}
    t0 = __import__("time").time()
    a = R.translate(ex.RE_ONLY_NCNAME)
    checked, disagreements = R.validate_translation(ex.RE_ONLY_NCNAME, a)
    if disagreements:
        return {"verdict": "harness_error", "detail": f"regex translator disagrees with Python re: {disagreements[:3]}"}
    target = z3.Concat(X.z3_qname(), z3.Union(R.EPS, R.ch(10)))
    verdict, w, dt = R.check_subset(a, target, timeout_ms=120000)
    out = {
        "queries": 1,
        "solver_s": round(dt, 3),
        "validated": checked,
        "samples": R.sample(a, 4),
        "extra": {"pattern_sha": __import__("hashlib").sha1(ex.RE_ONLY_NCNAME.pattern.encode()).hexdigest()[:12], "encoding": "re._parser tree -> z3 Re; code points above U+2FFFF clamped (z3 character sort)"},
    }
    # second query: the guard is not vacuous (accepts every ASCII XML name)
    v2, w2, dt2 = R.check_subset(X.z3_qname(), a, timeout_ms=120000)
    out["queries"] += 1
    out["solver_s"] = round(dt + dt2, 3)
    if verdict == "unsat" and v2 == "unsat":
        out["verdict"] = "confirmed"
    elif verdict == "sat":
        real = bool(ex.is_xml_tag(w)) and not X.is_qname(w[:-1] if w.endswith("\n") else w)
        out.update(verdict="counterexample", counterexample={"witness": w}, replayed=real, detail=f"is_xml_tag accepts {w!r} which is not an XML QName", replay_result=_convert_with_name(w))
    elif v2 == "sat":
        real = X.is_qname(w2) and not ex.is_xml_tag(w2)
        out.update(verdict="counterexample", counterexample={"witness": w2, "direction": "rejects-valid"}, replayed=real, detail=f"is_xml_tag rejects the valid XML name {w2!r}")
    else:
        out["verdict"] = "unknown"
    return out


def _convert_with_name(w):
    try:
        from pyxform.xls2xform import convert

        r = convert({"survey": [{"type": "text", "name": w, "label": "x"}]})
        import xml.dom.minidom as md

        try:
            md.parseString(r.xform)
            return {"converted": True, "wellformed": True}
        except Exception as e:  # noqa: BLE001
            return {"converted": True, "wellformed": False, "parse_error": str(e)[:200]}
    except Exception as e:  # noqa: BLE001
        return {"converted": False, "error": f"{type(e).__name__}: {str(e)[:200]}"}


ob_e2(
    "C01",
    "d.name-guard",
    name_guard_run,
    timeout=300,
    kernel=("pyxform.parsing.expression:get_lexer_rules", "pyxform.parsing.expression:is_xml_tag"),
    symbolic="one z3 String over all Unicode strings of any length",
    bounds="unbounded string length; code points above U+2FFFF outside z3's character sort; a single trailing newline admitted by Python '$' is XML white space in tag position",
    weight=5,
)


# ---- c: SER-TREE (parse-back of shapes) -------------------------------------------------
shims.s5_xml_parser()
from harness import shapes as SH  # noqa: E402
from harness import xmlmodel  # noqa: E402
from harness.common import tree  # noqa: E402
from vf.registry import specialise  # noqa: E402


SEG = [(32, 126), (9, 10), (8232, 8233)]  # printable ASCII / TAB,LF / LINE+PARAGRAPH SEPARATOR


def c01_tree(shape: int, rp: int, n1: int, n2: int, a0: int, a1: int, b0: int, b1: int) -> bool:
    """
    vpre: SEG[rp][0] <= a0 <= SEG[rp][1] and 32 <= a1 <= 126
    vpre: 32 <= b0 <= 126 and 32 <= b1 <= 126
    vpost: _ == True
    """
    t1 = S(*((a0, a1)[:n1])) if n1 else "x"
    t2 = S(*((b0, b1)[:n2])) if n2 else "y"
    n = SH.build(shape, t1, t2)
    want = SH.merge_text(tree(n))
    for ser in (n.toxml(), n.toprettyxml(indent="  ")):
        back = tree(xmlmodel.parse(ser).documentElement)
        if SH.norm(SH.unpad(back)) != SH.norm(want):
            return False
    return True


specialise(
    "C01",
    "c.ser-tree",
    c01_tree,
    {"shape": list(range(1, SH.N_SHAPES)), "rp": [0, 1, 2], "n1": [1], "n2": [0]},
    reach_if=lambda fx: fx["rp"] == 0,
    timeout=300,
    kernel=K_SER + ("xml.dom.minidom:Text.writexml",),
    shims=("S2", "S5"),
    symbolic="first text/attribute segment = 1 symbolic character over a contiguous range fixed per instance (printable ASCII / TAB-LF / U+2028-2029), second segment fixed; full Unicode is decided by a/b",
    bounds="shape fixed per instance (9 shapes); parse-back equals the tree modulo the writer's single boundary space in mixed content",
    weight=60,
)
specialise(
    "C01",
    "c.ser-tree",
    c01_tree,
    {"shape": list(range(1, SH.N_SHAPES)), "rp": [0, 1], "n1": [1, 2], "n2": [1]},
    reach_if=lambda fx: fx["rp"] == 0 and fx["n1"] == 1,
    tiers=("thorough",),
    timeout=1800,
    kernel=K_SER + ("xml.dom.minidom:Text.writexml",),
    shims=("S2", "S5"),
    symbolic="two text/attribute segments of up to 2 symbolic characters (printable ASCII + TAB + LF)",
    bounds="shape and segment lengths fixed per instance",
    weight=500,
)


# ---- homomorphism: escaping is per character -------------------------------------------
@ob(
    "C01",
    "c.homomorphism",
    timeout=300,
    kernel=("pyxform.utils:escape_text_for_xml", "xml.dom.minidom:_write_data"),
    shims=("S2",),
    symbolic="two strings of 2 symbolic code points each",
    bounds="|t1| = |t2| = 2: esc(t1+t2) == esc(t1)+esc(t2) for the text escaper and the attribute escaper",
    weight=30,
)
def c01_homomorphism(a0: int, a1: int, b0: int, b1: int) -> bool:
    """
    pre: 9 <= a0 <= 65533 and 9 <= a1 <= 65533 and 9 <= b0 <= 65533 and 9 <= b1 <= 65533
    post: _ == True
    """
    import io

    from pyxform.utils import escape_text_for_xml
    from xml.dom.minidom import _write_data

    t1, t2 = S(a0, a1), S(b0, b1)
    if escape_text_for_xml(t1 + t2) != escape_text_for_xml(t1) + escape_text_for_xml(t2):
        return False

    def wd(s):
        w = io.StringIO()
        _write_data(w, s)
        return w.getvalue()

    return wd(t1 + t2) == wd(t1) + wd(t2)


# ---- g: SKELETON + namespace validity on whole forms ----------------------------------------
from harness.common import build_survey, chars_violation, child_elements, elements, names_violation  # noqa: E402
from pyxform.errors import PyXFormError  # noqa: E402

shims.standard()


def _skeleton_ok(root) -> bool:
    if root.tagName != "h:html":
        return False
    kids = child_elements(root)
    if [k.tagName for k in kids] != ["h:head", "h:body"]:
        return False
    hk = child_elements(kids[0])
    if [k.tagName for k in hk] != ["h:title", "model"]:
        return False
    insts = [c for c in child_elements(hk[1]) if c.tagName == "instance"]
    if not insts or insts[0].hasAttribute("id") or insts[0].hasAttribute("src"):
        return False
    prim = child_elements(insts[0])
    return len(prim) == 1 and prim[0].hasAttribute("id")


def c01_skeleton(feat: int, t0: int, n0: int, n1: int) -> bool:
    """
    vpre: 33 <= t0 <= 126 and t0 != 36
    vpre: 97 <= n0 <= 122 and 97 <= n1 <= 122
    vpost: _ == True
    """
    # fixed names carry a digit so that they cannot collide with the symbolic (letters-only) name
    T, N = S(t0, 66), S(n0, n1)
    rows = [{"type": "text", "name": N, "label": T}]
    wb = {"survey": rows, "settings": [{"form_title": T, "form_id": "f" + N}]}
    if feat == 1:  # submission + itext + secondary instance
        rows[0]["name"] = "q9"  # itext ids are dict keys of Survey._translations: the name must be concrete here
        wb["settings"][0]["submission_url"] = "http://x/" + N
        rows[0]["label::L1"] = T
        rows.append({"type": "select_one l1", "name": "s9", "label": "S"})
        wb["choices"] = [{"list_name": "l1", "name": "a", "label": T}]
    elif feat == 2:  # repeat + entity + custom namespace + external instance
        rows[:] = [{"type": "begin repeat", "name": "r9", "label": T}, rows[0], {"type": "end repeat"}, {"type": "xml-external", "name": "ext9"}]
        wb["entities"] = [{"dataset": "ds", "label": "a"}]
        wb["settings"][0]["namespaces"] = 'ex="http://e/' + N + '"'
        wb["settings"][0]["attribute::ex:k"] = T
    elif feat == 3:  # audit, trigger, dynamic default, range
        rows += [{"type": "audit", "name": "audit"}, {"type": "calculate", "name": "c9", "calculation": "1", "trigger": "${" + "q09}"}, {"type": "text", "name": "q09", "label": "Q", "default": "now()"}, {"type": "range", "name": "rg9", "label": T, "parameters": "start=1 end=5 step=1"}]
        rows.insert(0, rows.pop(3))
    # itext ids (xpaths) are dict keys of Survey._translations: names on the path stay concrete with itext
    fname = "data9" if feat == 1 else "d" + N
    survey, _w, _js = build_survey(wb, form_name=fname, prefill=True)
    root = survey.xml()
    if not _skeleton_ok(root):
        return False
    prim = child_elements([c for c in elements(root, "instance")][0])[0]
    if prim.tagName != fname or prim.getAttribute("id") != "f" + N:
        return False
    return names_violation(root) is None and chars_violation(root) is None


specialise(
    "C01",
    "g.skeleton",
    c01_skeleton,
    {"feat": [0, 1, 2, 3]},
    timeout=400,
    kernel=("pyxform.survey:Survey.xml", "pyxform.survey:Survey.xml_model", "pyxform.survey:Survey.xml_instance", "pyxform.survey:Survey.get_nsmap", "pyxform.xls2json:workbook_to_json"),
    shims=("S1", "S2", "S3", "S4"),
    symbolic="title/label text (one symbolic printable character + a fixed one) and a 2-letter name used for the question, form id and form name",
    bounds="feature mix fixed per instance: plain; submission+itext+choices; repeat+entity+namespaces+external instance; audit+trigger+dynamic default+range",
    weight=60,
)


# ---- e/h: header-derived names, prefixes and non-XML characters (known findings + companions) ----
BAD_NAMES = ["a<b", "a b", "1x", 'a"b']
GOOD_NAMES = ["abc", "a-b.c", "_x1"]
CHANNELS = ["bind::", "body::", "instance::", "choices-column", "attribute::", "namespaces-prefix"]


def _channel_wb(ch: int, K: str, V: str, dup: bool = False):
    q = {"type": "select_one l1", "name": "q1", "label": "L"}
    wb = {"survey": [q], "choices": [{"list_name": "l1", "name": "a", "label": "A"}]}
    st = {}
    if dup:  # settings that switch validation paths are part of the input space
        st["allow_choice_duplicates"] = "yes"
    if ch == 0:
        q["bind::" + K] = V
    elif ch == 1:
        q["body::" + K] = V
    elif ch == 2:
        q["instance::" + K] = V
    elif ch == 3:
        wb["choices"][0][K] = V
    elif ch == 4:
        st["attribute::" + K] = V
    else:
        st["namespaces"] = K + '="http://e/' + V + '"'
    if st:
        wb["settings"] = [st]
    return wb


def c01_channels(ch: int, ki: int, dup: bool, v0: int, v1: int) -> bool:
    """
    vpre: 0 <= ki <= 2
    vpre: 97 <= v0 <= 122 and 97 <= v1 <= 122
    vpost: _ == True
    """
    try:
        survey, _w, _js = build_survey(_channel_wb(ch, GOOD_NAMES[ki], S(v0, v1), dup))
        survey.validate()
        root = survey.xml()
    except PyXFormError:
        return True
    return names_violation(root) is None


def c01_bad_channel(ch: int, ki: int, dup: bool, v0: int, v1: int) -> bool:
    """
    vpre: 97 <= v0 <= 122 and 97 <= v1 <= 122
    vpost: _ == True
    """
    try:
        survey, _w, _js = build_survey(_channel_wb(ch, BAD_NAMES[ki], S(v0, v1), dup))
        survey.validate()
        root = survey.xml()
    except PyXFormError:
        return True
    return names_violation(root) is None


# F2 is identified by the (channel, header-name) pairs that reach an XML name position on the
# pinned tree; any other pair failing is a new violation, not the known finding.
F2_PAIRS = {(c, k) for c in range(6) for k in range(4)} - {(3, 1), (5, 1)}  # measured on the pinned tree: all but the two space-separated cases that the sheet readers drop


def _classify_channels(call, replay):
    return "F2"  # attached only to the obligations of the listed (channel, name) pairs


_K_CH = ("pyxform.parsing.sheet_headers:process_header", "pyxform.parsing.sheet_headers:process_row", "pyxform.survey_element:SurveyElement.xml_bindings", "pyxform.question:Question._build_xml", "pyxform.question:Question.xml_instance", "pyxform.survey:Survey._generate_static_instances", "pyxform.survey:Survey.xml_instance", "pyxform.survey:Survey.get_nsmap", "pyxform.validators.pyxform.choices:validate_headers", "pyxform.validators.pyxform.choices:validate_and_clean_choices")
specialise(
    "C01",
    "e.name-channels",
    c01_channels,
    {"ch": [0, 1, 2, 3, 4, 5]},
    timeout=300,
    kernel=_K_CH,
    shims=("S1", "S2", "S3", "S4"),
    symbolic="header-derived name chosen by a symbolic index from 3 valid XML names (header text is a dict key: concrete), allow_choice_duplicates setting present or not (boolean), cell value of 2 symbolic letters",
    bounds="channel fixed per instance: bind::K, body::K, instance::K, choices extra column K, settings attribute::K, namespaces prefix K",
    weight=40,
)
for _ch in range(6):
    for _ki in range(len(BAD_NAMES)):
        _known = (_ch, _ki) in F2_PAIRS
        specialise(
            "C01",
            "e.name-channels-unvalidated" if _known else "e.name-channels-rejected",
            c01_bad_channel,
            {"ch": [_ch], "ki": [_ki]},
            timeout=300,
            kernel=_K_CH,
            shims=("S1", "S2", "S3", "S4"),
            symbolic="allow_choice_duplicates setting present or not (boolean), cell value of 2 symbolic letters",
            bounds=f"channel {CHANNELS[_ch]} with the header-derived name {BAD_NAMES[_ki]!r} (not an XML name), fixed per instance" + ("; expected to reproduce known finding F2 (this header text reaches an XML name position unvalidated)" if _known else "; the name must be dropped or refused"),
            weight=20,
            **({"expect": "known", "reach": False, "classifier": _classify_channels} if _known else {"reach": False}),
        )


def c01_prefix(where: int, p0: int, p1: int) -> bool:
    """
    vpre: 97 <= p0 <= 122 and 97 <= p1 <= 122
    vpost: _ == True
    """
    P = S(p0, p1)
    q = {"type": "text", "name": "q1", "label": "L"}
    if where == 0:
        q["name"] = P + ":q"
    try:
        survey, _w, _js = build_survey({"survey": [q]})
        root = survey.xml()
    except PyXFormError:
        return True
    return names_violation(root) is None


specialise(
    "C01",
    "e.undeclared-prefix",
    c01_prefix,
    {"where": [0]},
    timeout=300,
    kernel=("pyxform.parsing.expression:is_xml_tag", "pyxform.xls2json:workbook_to_json", "pyxform.survey:Survey.get_nsmap"),
    shims=("S1", "S2", "S3", "S4"),
    symbolic="a 2-letter prefix used in a question name 'pp:q' without declaring it",
    bounds="expected to reproduce known finding F17 (names with an undeclared namespace prefix are accepted)",
    weight=30,
    expect="known",
    reach=False,
    classifier=lambda call, replay: "F17",
)


def c01_nonchar(ch: int, c0: int) -> bool:
    """
    vpre: 1 <= c0 <= 8
    vpost: _ == True
    """
    t = "a" + S(c0) + "b"
    wb = {"survey": [{"type": "text", "name": "q1", "label": t if ch == 0 else "L", "hint": t if ch == 1 else "h"}]}
    try:
        survey, _w, _js = build_survey(wb)
        root = survey.xml()
    except PyXFormError:
        return True
    return chars_violation(root) is None


specialise(
    "C01",
    "h.non-xml-char",
    c01_nonchar,
    {"ch": [0, 1]},
    timeout=200,
    kernel=("pyxform.xls2json:clean_text_values", "pyxform.survey_element:SurveyElement.xml_label", "pyxform.utils:node"),
    shims=("S1", "S2", "S3", "S4"),
    symbolic="a control character U+0001-U+0008 inside a label / hint",
    bounds="expected to reproduce known finding F8 (characters outside XML 1.0 Char are written raw)",
    weight=20,
    expect="known",
    reach=False,
    classifier=lambda call, replay: "F8",
)



# ---- a': entity-looking text (needs '&' + name + ';') -----------------------------------------
@ob(
    "C01",
    "a.ser-entity-like",
    timeout=300,
    kernel=K_SER,
    shims=("S2",),
    symbolic="text '&' + 2 symbolic characters (U+0023-U+007A: '#', digits, letters, ';' ...) + ';' as element text and as attribute value",
    bounds="entity-like sequences of total length 4",
    weight=40,
)
def c01_entity_like(c0: int, c1: int) -> bool:
    """
    pre: 35 <= c0 <= 122 and 35 <= c1 <= 122
    post: _ == True
    """
    t = "&" + S(c0, c1) + ";"
    return _ser_text_ok(t) and _ser_attr_ok(t)


# ---- e'': the save_to column under every accepted header spelling (round 3) -------------------------------
SAVETO_HEADERS = ["save_to", "Save_To", "SAVE_TO", "save to", "bind::entities:saveto", "Bind::entities:saveto"]


def c01_saveto_header(h: int, has_entities: bool, with_header: bool, in_group: bool, s0: int, s1: int) -> bool:
    """
    vpre: 0 <= h <= 5
    vpre: 97 <= s0 <= 122 and 97 <= s1 <= 122
    vpost: _ == True
    """
    from harness.common import names_violation

    col = SAVETO_HEADERS[h]
    q = {"type": "text", "name": "q1", "label": "L1", col: S(s0, s1)}
    rows = [{"type": "begin group", "name": "g", "label": "G"}, q, {"type": "end group"}] if in_group else [q]
    rows.append({"type": "text", "name": "q2", "label": "L2"})
    wb = {"survey": rows}
    if with_header:
        wb["survey_header"] = [{"type": None, "name": None, "label": None, col: None}]
    if has_entities:
        wb["entities"] = [{"dataset": "ds", "label": "a"}]
    try:
        survey, _w, _js = build_survey(wb)
        root = survey.xml()
    except PyXFormError:
        return not has_entities  # with an entity declaration a well-formed save_to is accepted under every spelling
    return names_violation(root) is None


specialise(
    "C01",
    "e.saveto-header",
    c01_saveto_header,
    {"has_entities": [False, True]},
    timeout=300,
    kernel=("pyxform.xls2json:workbook_to_json", "pyxform.entities.entities_parsing:validate_entity_saveto", "pyxform.parsing.sheet_headers:dealias_and_group_headers", "pyxform.survey:Survey.get_nsmap", "pyxform.survey:Survey.xml"),
    shims=("S1", "S2", "S3", "S4"),
    symbolic="spelling of the save_to column header (symbolic index over 6 accepted spellings incl. letter case, space, the bind:: form), explicit header row present (boolean), question inside a group (boolean), 2-letter property name",
    bounds="entities sheet present / absent per instance; if the form converts, every prefix in the output is declared (independent QName / prefix check)",
    weight=40,
)
