"""C01 — every successful conversion is well-formed, namespace-valid, with the XForm skeleton."""
from __future__ import annotations

import re

from harness import shims
from harness.common import S, is_xml_char
from vf.registry import ob

shims.standard()

from pyxform.utils import node  # noqa: E402

OUTSIDE = "text longer than the stated length bounds (argued by the per-character homomorphism obligation); documents larger than the listed shapes; binary container parsing"
ASSUMPTIONS = [
    "S2: escape_text_for_xml un-cached inside CrossHair (memoisation transparent; checked with caches on in C14)",
    "XML 1.0 well-formedness oracle = regular-expression content model written from the XML 1.0 productions (CharData / AttValue / Reference)",
]

K_SER = (
    "pyxform.utils:node",
    "pyxform.utils:DetachableElement.writexml",
    "pyxform.utils:PatchedText.writexml",
    "pyxform.utils:escape_text_for_xml",
    "xml.dom.minidom:_write_data",
)

# XML 1.0: content of an element with text only: (CharData | Reference)*, CharData = [^<&]* - ']]>'
_TEXT_RE = re.compile(r"<a>((?:[^<&>]|&amp;|&lt;|&gt;|&quot;)*)</a>\n?")
_ATTR_RE = re.compile(r'<a k="((?:[^<&"]|&amp;|&lt;|&gt;|&quot;)*)"/>\n?')


def _unesc(s: str) -> str:
    return s.replace("&lt;", "<").replace("&gt;", ">").replace("&quot;", '"').replace("&amp;", "&")


def _ser_text_ok(t: str) -> bool:
    n = node("a", t)
    for out in (n.toxml(), n.toprettyxml(indent="  ")):
        m = _TEXT_RE.fullmatch(out)
        if m is None:
            return False
        if _unesc(m.group(1)) != t:
            return False
    return True


def _ser_attr_ok(v: str) -> bool:
    n = node("a", k=v)
    for out in (n.toxml(), n.toprettyxml(indent="  ")):
        m = _ATTR_RE.fullmatch(out)
        if m is None:
            return False
        if _unesc(m.group(1)) != v:
            return False
    return True


_CH = "(c{i} == 9 or c{i} == 10 or 32 <= c{i} <= 55295 or 57344 <= c{i} <= 65533 or 65536 <= c{i} <= 1114111)"


def _mk(kind: str, n: int):
    params = ", ".join(f"c{i}: int" for i in range(n))
    pre = "\n".join("    pre: " + _CH.format(i=i) for i in range(n))
    body = f"return _ser_{kind}_ok(S({', '.join(f'c{i}' for i in range(n))}))"
    src = f'def c01_{kind}{n}({params}) -> bool:\n    """\n{pre}\n    post: _ == True\n    """\n    {body}\n'
    return src


# generated into this module's namespace from source text so CrossHair sees real signatures
import linecache  # noqa: E402

for _kind, _lens_q, _lens_t in (("text", (1, 2, 3), (4,)), ("attr", (1, 2), (3, 4))):
    for _n in _lens_q + _lens_t:
        _src = _mk(_kind, _n)
        _fname = f"<vf-generated C01 {_kind}{_n}>"
        linecache.cache[_fname] = (len(_src), None, _src.splitlines(True), _fname)
        _ns: dict = {}
        exec(compile(_src, _fname, "exec"), globals(), _ns)
        _fn = _ns[f"c01_{_kind}{_n}"]
        _fn.__module__ = __name__
        globals()[_fn.__name__] = _fn
        ob(
            "C01",
            f"{'a' if _kind == 'text' else 'b'}.ser-{_kind}.len{_n}",
            tiers=("quick", "thorough") if _n in _lens_q else ("thorough",),
            timeout={1: 60, 2: 120, 3: 500, 4: 2400}[_n],
            kernel=K_SER,
            shims=("S2",),
            symbolic=f"{_n} code points over XML 1.0 Char minus CR (U+9, U+A, U+20-U+D7FF, U+E000-U+FFFD, U+10000-U+10FFFF)",
            bounds=f"{_kind} length exactly {_n}; compact and pretty serialisation",
            weight={1: 5, 2: 15, 3: 80, 4: 600}[_n],
        )(_fn)


# ---- d: NAME-GUARD (E2-R) ---------------------------------------------------------------
from vf.registry import ob_e2  # noqa: E402


def name_guard_run(tier, replay_call=None):
    import z3

    from pyxform.parsing import expression as ex
    from spec import xmlnames as X
    from vf import e2_regex as R

    if tier == "replay":
        w = replay_call["witness"]
        bad = bool(ex.is_xml_tag(w)) and not X.is_qname(w[:-1] if w.endswith("\n") else w)
        return {"verdict": "counterexample" if bad else "confirmed", "replayed": bad, "counterexample": replay_call}
    t0 = __import__("time").time()
    a = R.translate(ex.RE_ONLY_NCNAME)
    checked, disagreements = R.validate_translation(ex.RE_ONLY_NCNAME, a)
    if disagreements:
        return {"verdict": "harness_error", "detail": f"regex translator disagrees with Python re: {disagreements[:3]}"}
    target = z3.Concat(X.z3_qname(), z3.Union(R.EPS, R.ch(10)))
    verdict, w, dt = R.check_subset(a, target, timeout_ms=120000)
    out = {
        "queries": 1,
        "solver_s": round(dt, 3),
        "validated": checked,
        "samples": R.sample(a, 4),
        "extra": {"pattern_sha": __import__("hashlib").sha1(ex.RE_ONLY_NCNAME.pattern.encode()).hexdigest()[:12], "encoding": "re._parser tree -> z3 Re; code points above U+2FFFF clamped (z3 character sort)"},
    }
    # second query: the guard is not vacuous (accepts every ASCII XML name)
    v2, w2, dt2 = R.check_subset(X.z3_qname(), a, timeout_ms=120000)
    out["queries"] += 1
    out["solver_s"] = round(dt + dt2, 3)
    if verdict == "unsat" and v2 == "unsat":
        out["verdict"] = "confirmed"
    elif verdict == "sat":
        real = bool(ex.is_xml_tag(w)) and not X.is_qname(w[:-1] if w.endswith("\n") else w)
        out.update(verdict="counterexample", counterexample={"witness": w}, replayed=real, detail=f"is_xml_tag accepts {w!r} which is not an XML QName", replay_result=_convert_with_name(w))
    elif v2 == "sat":
        real = X.is_qname(w2) and not ex.is_xml_tag(w2)
        out.update(verdict="counterexample", counterexample={"witness": w2, "direction": "rejects-valid"}, replayed=real, detail=f"is_xml_tag rejects the valid XML name {w2!r}")
    else:
        out["verdict"] = "unknown"
    return out


def _convert_with_name(w):
    try:
        from pyxform.xls2xform import convert

        r = convert({"survey": [{"type": "text", "name": w, "label": "x"}]})
        import xml.dom.minidom as md

        try:
            md.parseString(r.xform)
            return {"converted": True, "wellformed": True}
        except Exception as e:  # noqa: BLE001
            return {"converted": True, "wellformed": False, "parse_error": str(e)[:200]}
    except Exception as e:  # noqa: BLE001
        return {"converted": False, "error": f"{type(e).__name__}: {str(e)[:200]}"}


ob_e2(
    "C01",
    "d.name-guard",
    name_guard_run,
    timeout=300,
    kernel=("pyxform.parsing.expression:get_lexer_rules", "pyxform.parsing.expression:is_xml_tag"),
    symbolic="one z3 String over all Unicode strings of any length",
    bounds="unbounded string length; code points above U+2FFFF outside z3's character sort; a single trailing newline admitted by Python '$' is XML white space in tag position",
    weight=5,
)


# ---- c: SER-TREE (parse-back of shapes) -------------------------------------------------
shims.s5_xml_parser()
from harness import shapes as SH  # noqa: E402
from harness import xmlmodel  # noqa: E402
from harness.common import tree  # noqa: E402
from vf.registry import specialise  # noqa: E402


def c01_tree(shape: int, n1: int, n2: int, a0: int, a1: int, b0: int, b1: int) -> bool:
    """
    vpre: (a0 == 9 or a0 == 10 or 32 <= a0 <= 126) and (a1 == 9 or a1 == 10 or 32 <= a1 <= 126)
    vpre: (b0 == 9 or b0 == 10 or 32 <= b0 <= 126) and (b1 == 9 or b1 == 10 or 32 <= b1 <= 126)
    vpost: _ == True
    """
    t1 = S(*((a0, a1)[:n1])) if n1 else "x"
    t2 = S(*((b0, b1)[:n2])) if n2 else "y"
    n = SH.build(shape, t1, t2)
    want = SH.merge_text(tree(n))
    for ser in (n.toxml(), n.toprettyxml(indent="  ")):
        back = tree(xmlmodel.parse(ser).documentElement)
        if SH.norm(SH.unpad(back)) != SH.norm(want):
            return False
    return True


specialise(
    "C01",
    "c.ser-tree",
    c01_tree,
    {"shape": list(range(1, SH.N_SHAPES)), "n1": [1], "n2": [0]},
    timeout=300,
    kernel=K_SER + ("xml.dom.minidom:Text.writexml",),
    shims=("S2", "S5"),
    symbolic="first text/attribute segment = 1 symbolic character over printable ASCII + TAB + LF (second segment fixed); full Unicode is decided by a/b",
    bounds="shape fixed per instance (9 shapes); parse-back equals the tree modulo the writer's single boundary space in mixed content",
    weight=60,
)
specialise(
    "C01",
    "c.ser-tree",
    c01_tree,
    {"shape": list(range(1, SH.N_SHAPES)), "n1": [1, 2], "n2": [1]},
    tiers=("thorough",),
    timeout=1800,
    kernel=K_SER + ("xml.dom.minidom:Text.writexml",),
    shims=("S2", "S5"),
    symbolic="two text/attribute segments of up to 2 symbolic characters (printable ASCII + TAB + LF)",
    bounds="shape and segment lengths fixed per instance",
    weight=500,
)


# ---- homomorphism: escaping is per character -------------------------------------------
@ob(
    "C01",
    "c.homomorphism",
    timeout=300,
    kernel=("pyxform.utils:escape_text_for_xml", "xml.dom.minidom:_write_data"),
    shims=("S2",),
    symbolic="two strings of 2 symbolic code points each",
    bounds="|t1| = |t2| = 2: esc(t1+t2) == esc(t1)+esc(t2) for the text escaper and the attribute escaper",
    weight=30,
)
def c01_homomorphism(a0: int, a1: int, b0: int, b1: int) -> bool:
    """
    pre: 9 <= a0 <= 65533 and 9 <= a1 <= 65533 and 9 <= b0 <= 65533 and 9 <= b1 <= 65533
    post: _ == True
    """
    import io

    from pyxform.utils import escape_text_for_xml
    from xml.dom.minidom import _write_data

    t1, t2 = S(a0, a1), S(b0, b1)
    if escape_text_for_xml(t1 + t2) != escape_text_for_xml(t1) + escape_text_for_xml(t2):
        return False

    def wd(s):
        w = io.StringIO()
        _write_data(w, s)
        return w.getvalue()

    return wd(t1 + t2) == wd(t1) + wd(t2)
