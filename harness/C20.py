"""C20 — advisory warnings fire exactly when their trigger is present."""
from __future__ import annotations

from harness import shims
from harness import seqmodel as M
from harness.common import S, build_survey, tree
from vf.registry import ob, ob_e2, specialise

shims.standard()

from pyxform.errors import PyXFormError  # noqa: E402

OUTSIDE = "forms with more than 3 languages / 8 translatable columns; sheet names longer than key length + 2 (distance > 2 by length alone); the IANA subtag files are read concretely (two real codes used)"
ASSUMPTIONS = [
    "language names are concrete ('L1','L2'): header keys are hashed; header order is a symbolic rotation",
    "reference iff-rules written from the XLSForm documentation (multiple-language support, sheet-name typo warnings)",
    "S1-S4 shims inside CrossHair; witnesses re-run without them",
]
K = (
    "pyxform.validators.pyxform.translations_checks:Translations._find_translations",
    "pyxform.validators.pyxform.translations_checks:Translations._find_missing",
    "pyxform.validators.pyxform.translations_checks:Translations.seen_default_only",
    "pyxform.validators.pyxform.translations_checks:SheetTranslations.missing_check",
    "pyxform.validators.pyxform.translations_checks:SheetTranslations.or_other_check",
    "pyxform.validators.pyxform.translations_checks:format_missing_translations_msg",
    "pyxform.validators.pyxform.sheet_misspellings:find_sheet_misspellings",
    "pyxform.utils:levenshtein_distance",
    "pyxform.validators.pyxform.iana_subtags.validation:get_languages_with_bad_tags",
    "pyxform.xls2json:workbook_to_json",
)

# (header, display column name, language)
S_COLS = [
    ("label", "label", "default"), ("label::L1", "label", "L1"),
    ("hint", "hint", "default"), ("hint::L1", "hint", "L1"), ("hint::L2", "hint", "L2"),
    ("image", "image", "default"), ("image::L1", "image", "L1"),
    ("constraint_message::L1", "constraint_message", "L1"),
]
C_COLS = [("label", "label", "default"), ("label::L1", "label", "L1"), ("image::L2", "image", "L2")]


def expected_missing(cols, flags):
    """reference iff-rule: {(lang, col)} lacking a translation"""
    present = [(c, l) for (h, c, l), f in zip(cols, flags) if f]
    langs = []
    names = []
    for c, l in present:
        if l not in langs:
            langs.append(l)
        if c not in names:
            names.append(c)
    if not langs or langs == ["default"]:
        return []
    out = []
    for l in langs:
        for c in names:
            if (c, l) not in present:
                out.append((l, c))
    return out


def parse_missing(warnings, sheet):
    """-> [(lang, col)] parsed from the warning text for one sheet"""
    out = []
    for w in warnings:
        for line in w.split("\n"):
            pre = "Language '"
            if not line.startswith(pre):
                continue
            rest = line[len(pre):]
            q = rest.find("'")
            lang = rest[:q]
            rest = rest[q + 1:]
            tag = " is missing the " + sheet + " "
            if not rest.startswith(tag):
                continue
            rest = rest[len(tag):]
            if rest.startswith("columns "):
                names = rest[len("columns "):].rstrip(".").split(", ")
            else:
                names = [rest[: rest.find(" column")]]
            for n in names:
                out.append((lang, n))
    return out


def c20_translations(s0: bool, s1: bool, s2: bool, s3: bool, s4: bool, s5: bool, s6: bool, s7: bool, c0: bool, c1: bool, c2: bool, rot: int, or_other: bool) -> bool:
    """
    vpre: s0 or s1
    vpre: 0 <= rot <= 1
    vpost: _ == True
    """
    sf = (s0, s1, s2, s3, s4, s5, s6, s7)
    cf = (c0, c1, c2)
    row = {"type": "select_one l1" + (" or_other" if or_other else ""), "name": "q1", "constraint": ". != ''"}
    order = list(range(8))
    if rot:
        order = order[5:] + order[:5]
    for i in order:
        if sf[i]:
            row[S_COLS[i][0]] = "x"
    ch = {"list_name": "l1", "name": "a"}
    any_c = False
    for i in range(3):
        if cf[i]:
            ch[C_COLS[i][0]] = "y"
            any_c = True
    if not (c0 or c1):
        ch["label"] = "y"  # a choice needs some label column; counts as the default-language label
        cf = (True, c1, c2)
    wb = {"survey": [row], "choices": [ch]}
    warnings = []
    from pyxform.xls2json import workbook_to_json
    from pyxform.xls2json_backends import get_xlsform

    workbook_to_json(workbook_dict=get_xlsform(xlsform=wb), warnings=warnings)
    got_s = sorted(parse_missing(warnings, "survey"))
    got_c = sorted(parse_missing(warnings, "choices"))
    if got_s != sorted(expected_missing(S_COLS, sf)):
        return False
    if got_c != sorted(expected_missing(C_COLS, cf)):
        return False
    # or_other + translations warning iff both
    s_langs = [l for (h, c, l), f in zip(S_COLS, sf) if f and l != "default"]
    c_langs = [l for (h, c, l), f in zip(C_COLS, cf) if f and l != "default"]
    want_oo = or_other and (len(s_langs) > 0 or len(c_langs) > 0)
    has_oo = False
    for w in warnings:
        if "or_other and translations" in w:
            has_oo = True
    return has_oo == want_oo


specialise(
    "C20",
    "a.translations",
    c20_translations,
    {"s0": [False, True], "s1": [False, True], "s2": [False, True], "c2": [False, True], "s4": [False], "s6": [False], "c0": [True]},
    skip_if=lambda fx: not (fx["s0"] or fx["s1"]),
    reach_if=lambda fx: fx["s0"] and fx["s1"] and not fx["s2"] and not fx["c2"],
    tiers=("quick",),
    timeout=500,
    kernel=K[:6] + (K[-1],),
    shims=("S1", "S2", "S4"),
    symbolic="presence of hint::L1, image, constraint_message::L1 (survey) and label::L1 (choices) headers, or_other flag, header order rotation (6 symbolic booleans)",
    bounds="label, label::L1, hint and choices image::L2 presence fixed per instance; hint::L2 and image::L1 absent, choices label present (quick tier)",
    weight=120,
)
specialise(
    "C20",
    "a.translations-full",
    c20_translations,
    {"s0": [False, True], "s1": [False, True], "s2": [False, True], "s4": [False, True], "s6": [False, True], "c0": [False, True], "c2": [False, True]},
    skip_if=lambda fx: not (fx["s0"] or fx["s1"]),
    reach_if=lambda fx: False,
    tiers=("thorough",),
    timeout=600,
    kernel=K[:6] + (K[-1],),
    shims=("S1", "S2", "S4"),
    symbolic="presence of hint::L1, image, constraint_message::L1 (survey) and label::L1 (choices) headers, or_other flag, header order rotation (6 symbolic booleans)",
    bounds="the other 7 header presences fixed per instance: all subsets of 8 survey x 3 choices translatable columns over {default, L1, L2}",
    weight=150,
)


# ---- b: Levenshtein (E2-D) ------------------------------------------------------------------
KEYS = ["survey", "choices", "settings", "entities", "external_choices"]


def levenshtein_run(tier, replay_call=None):
    import time

    import z3

    from pyxform.utils import levenshtein_distance as L
    from vf.e2_dp import Evaluator

    def ref_step(P, i, c, b):
        row = [i + 1]
        for j in range(1, len(b) + 1):
            sub = P[j - 1] + z3.If(c == b[j - 1], 0, 1)
            x = P[j] + 1
            y = row[j - 1] + 1
            mn = z3.If(x < y, x, y)
            mn = z3.If(sub < mn, sub, mn)
            row.append(mn)
        return row

    def ref_full(a: str, b: str) -> int:
        D = [[0] * (len(b) + 1) for _ in range(len(a) + 1)]
        for i in range(len(a) + 1):
            D[i][0] = i
        for j in range(len(b) + 1):
            D[0][j] = j
        for i in range(1, len(a) + 1):
            for j in range(1, len(b) + 1):
                D[i][j] = min(D[i - 1][j] + 1, D[i][j - 1] + 1, D[i - 1][j - 1] + (0 if a[i - 1] == b[j - 1] else 1))
        return D[len(a)][len(b)]

    if tier == "replay":
        a, b = replay_call["a"], replay_call["b"]
        bad = L(a, b) != ref_full(a, b)
        return {"verdict": "counterexample" if bad else "confirmed", "replayed": bad, "counterexample": replay_call}
    t0 = time.time()
    # translator validation: the repo's own test vectors through the evaluator, concretely
    ev = Evaluator(L)
    validated = 0
    for a, b in [("kitten", "sitting"), ("", "abc"), ("abc", ""), ("survey", "surveys"), ("chioces", "choices"), ("a", "a"), ("sunday", "saturday")]:
        if ev.call([ord(c) for c in a], [ord(c) for c in b]) != L(a, b):
            return {"verdict": "harness_error", "detail": f"E2-D evaluator disagrees with the real function on {a!r},{b!r}"}
        validated += 1
    queries = 0
    solver_s = 0.0
    samples = []
    for key in KEYS:
        b = [ord(c) for c in key]
        mmax = len(key) + (3 if tier == "thorough" else 2)
        for m in ([mmax] if tier == "quick" else range(1, mmax + 1)):
            a = [z3.Int(f"a{i}") for i in range(m)]
            ev = Evaluator(L)
            ev.cut = ["v0"]
            ret = ev.call(a, b)
            if len(ev.iterations) != m:
                return {"verdict": "harness_error", "detail": "loop cut did not see every outer iteration"}
            for it in ev.iterations:
                want = ref_step(it["pre"]["v0"], it["i"], a[it["i"]], b)
                s = z3.Solver()
                s.set("timeout", 60000)
                s.add(z3.Or(*[g != w for g, w in zip(it["post"]["v0"], want)]))
                t1 = time.time()
                r = s.check()
                solver_s += time.time() - t1
                queries += 1
                if str(r) == "sat":
                    mdl = s.model()
                    # replay: search a concrete candidate around the model's character for a real disagreement
                    cex = _lev_concretise(L, ref_full, key, m, it["i"], mdl, a)
                    return {"verdict": "counterexample", "counterexample": cex or {"a": "?", "b": key}, "replayed": cex is not None, "detail": f"row-step VC fails for key {key!r} candidate length {m} row {it['i']}", "queries": queries, "solver_s": round(solver_s, 2), "replay_result": cex}
                if str(r) != "unsat":
                    return {"verdict": "unknown", "detail": f"solver returned {r} on key {key} length {m} row {it['i']}", "queries": queries}
            # the value returned is the last cell of the last row
            last = ev.iterations[-1]["post"]["v0"][len(b)]
            s = z3.Solver()
            s.add(ret != last)
            queries += 1
            if str(s.check()) != "unsat":
                return {"verdict": "counterexample", "counterexample": {"a": "?", "b": key}, "replayed": False, "detail": "return value is not the last DP cell"}
            samples.append({"key": key, "candidate_length": m, "row_step_queries": m})
    return {"verdict": "confirmed", "queries": queries, "solver_s": round(solver_s, 2), "validated": validated, "samples": samples[:4], "extra": {"method": "inductive row-step equivalence against an independently encoded full-matrix recurrence; loop-carried row v0 havocked at each outer iteration"}}


def _lev_concretise(L, ref_full, key, m, row, mdl, avars):
    import itertools

    alphabet = sorted(set(key)) + ["z"]
    for cand in itertools.product(alphabet[:6], repeat=min(m, 4)):
        a = "".join(cand) + key[len(cand):m]
        if L(a, key) != ref_full(a, key):
            return {"a": a, "b": key}
    for k in range(len(key) + 1):
        for ch in alphabet:
            for a in (key[:k] + ch + key[k:], key[:k] + key[k + 1:], key[:k] + ch + key[k + 1:]):
                if L(a, key) != ref_full(a, key) or L(key, a) != ref_full(key, a):
                    return {"a": a, "b": key}
    return None


ob_e2(
    "C20",
    "b.levenshtein",
    levenshtein_run,
    timeout=600,
    kernel=("pyxform.utils:levenshtein_distance",),
    symbolic="every character of the candidate sheet name (z3 Int per position) and the whole previous DP row (havocked)",
    bounds="keys survey/choices/settings/entities/external_choices; candidate length up to len(key)+2 (quick: the longest; thorough: every length up to len(key)+3); the row-step VC is length-independent, so equality extends to all lengths by induction on rows",
    weight=30,
)


# ---- c: misspellings --------------------------------------------------------------------------
def c20_misspell(n: int, underscore: bool, u0: bool, u1: bool, u2: bool, c0: int, c1: int, c2: int, c3: int) -> bool:
    """
    vpre: 97 <= c0 <= 122 and 97 <= c1 <= 122 and 97 <= c2 <= 122 and 97 <= c3 <= 122
    vpost: _ == True
    """
    from pyxform.validators.pyxform.sheet_misspellings import find_sheet_misspellings

    # sheet names are matched case-insensitively: letter case of the first three characters is symbolic
    cs = [c0 - 32 if u0 else c0, c1 - 32 if u1 else c1, c2 - 32 if u2 else c2, c3]
    name = ("_" if underscore else "") + S(*(cs[:n]))
    key = "osm"  # the shortest supported sheet name: edit radius 2 is reachable with <= 4 symbolic characters
    msg = find_sheet_misspellings(key=key, keys=[name, "survey"])
    d = _ref_lev(name.lower(), key)
    if name.lower() == key:
        return True  # call-site precondition: the sheet is missing (readers match sheet names case-insensitively)
    want = d <= 2 and not underscore
    if want:
        return msg is not None and ("'" + name + "'") in msg and "'survey'" not in msg
    return msg is None


def _ref_lev(a: str, b: str) -> int:
    if len(a) == 0:
        return len(b)
    if len(b) == 0:
        return len(a)
    if a[0] == b[0]:
        return _ref_lev(a[1:], b[1:])
    x = _ref_lev(a[1:], b)
    y = _ref_lev(a, b[1:])
    z = _ref_lev(a[1:], b[1:])
    m = x if x < y else y
    m = z if z < m else m
    return 1 + m


specialise(
    "C20",
    "c.misspellings",
    c20_misspell,
    {"n": [1, 2]},
    timeout=600,
    kernel=(K[6], K[7]),
    shims=(),
    symbolic="candidate sheet name of n symbolic letters with symbolic letter case on the first three, underscore prefix (boolean)",
    bounds="key 'osm' (distance threshold reachable within 4 characters); recursive reference edit distance; n <= 3 quick, n = 4 thorough",
    weight=100,
)
specialise(
    "C20",
    "c.misspellings",
    c20_misspell,
    {"n": [3], "u1": [False], "u2": [False]},
    timeout=600,
    kernel=(K[6], K[7]),
    shims=(),
    symbolic="candidate sheet name of 3 symbolic letters (distance 0..3 from 'osm': the threshold boundary), symbolic case of the first letter, underscore prefix (boolean)",
    bounds="key 'osm'; n = 3",
    weight=300,
)
specialise(
    "C20",
    "c.misspellings",
    c20_misspell,
    {"n": [3, 4], "u1": [True]},
    reach_if=lambda fx: False,
    tiers=("thorough",),
    timeout=3000,
    kernel=(K[6], K[7]),
    shims=(),
    symbolic="candidate sheet name of 3-4 symbolic letters with symbolic letter case on the first and third, second upper case, underscore prefix (boolean)",
    bounds="key 'osm'; n = 3, 4",
    weight=1500,
)


# ---- d: row-level triggers ---------------------------------------------------------------------
def c20_row_triggers(trig: int, pos: int, blanks: int, l0: int, l1: int) -> bool:
    """
    vpre: 0 <= pos <= 2 and 0 <= blanks <= 2
    vpre: 97 <= l0 <= 122 and l1 == 66
    vpost: _ == True
    """
    lab = S(l0, l1)
    base = [{"type": "text", "name": "a", "label": lab}, {"type": "integer", "name": "b", "label": "B"}]
    t_rows, needle = {
        0: ([{"type": "begin group", "name": "g"}, {"type": "text", "name": "c", "label": "C"}, {"type": "end group"}], "Group has no label"),
        1: ([{"type": "begin repeat", "name": "r"}, {"type": "text", "name": "c", "label": "C"}, {"type": "end repeat"}], "Repeat has no label"),
        2: ([{"type": "image", "name": "im", "label": "I"}], "max-pixels"),
        3: ([{"type": "simserial", "name": "ss"}], "simserial is no longer supported"),
        4: ([{"type": "subscriberid", "name": "sid"}], "subscriberid is no longer supported"),
        5: ([{"type": "text", "name": "d", "label": "D", "disabled": "no"}], "'disabled' column header"),
    }[trig]
    p = pos % 3
    rows = [{} for _ in range(blanks)] + base[:p] + t_rows + base[p:]
    rownum = blanks + p + 2
    with_t, w1 = _convert(rows)
    without_t, w0 = _convert([{} for _ in range(blanks)] + base)
    hits = [w for w in w1 if needle in w]
    if len(hits) != 1 or ("[row : " + str(rownum) + "]") not in hits[0]:
        return False
    for w in w0:
        if needle in w:
            return False
    return True


def _convert(rows):
    survey, warnings, _js = build_survey({"survey": rows})
    return tree(survey.xml()), warnings


specialise(
    "C20",
    "d.row-triggers",
    c20_row_triggers,
    {"trig": [0, 1, 2, 3, 4, 5]},
    timeout=400,
    kernel=(K[-1],),
    shims=("S1", "S2", "S3", "S4"),
    symbolic="position of the triggering row among two base rows (0..2), number of blank rows above (0..2), a 2-character label tracer",
    bounds="trigger fixed per instance: unlabeled group, unlabeled repeat, image without max-pixels, simserial, subscriberid, disabled column",
    weight=80,
)


# ---- e: IANA language codes ----------------------------------------------------------------------
def c20_iana(n: int, code: int, c0: int, c1: int, c2: int) -> bool:
    """
    vpre: 0 <= code <= 3
    vpre: 65 <= c0 <= 122 and 65 <= c1 <= 122 and 65 <= c2 <= 122
    vpost: _ == True
    """
    from pyxform.validators.pyxform.iana_subtags.validation import get_languages_with_bad_tags

    prefix = S(*((c0, c1, c2)[:n]))
    suffix = ["", " (en)", " (fr)", " (zz9)"][code]
    lang = prefix + suffix
    got = get_languages_with_bad_tags([lang, "default"])
    flagged = lang != "default" and len(lang) >= 3 and code not in (1, 2)
    return got == ([lang] if flagged else [])


specialise(
    "C20",
    "e.iana",
    c20_iana,
    {"n": [1, 2, 3]},
    timeout=300,
    kernel=(K[8],),
    shims=(),
    symbolic="language name prefix of n symbolic letters, bracketed code over {none, (en), (fr), (zz9)}",
    bounds="n in 1..3; two real IANA codes and one invalid code",
    weight=40,
)


# ---- d': unlabeled choices are reported with their row numbers ------------------------------------------
@ob(
    "C20",
    "d.choice-labels",
    timeout=400,
    kernel=("pyxform.validators.pyxform.choices:validate_choice_list", "pyxform.validators.pyxform.choices:validate_and_clean_choices", "pyxform.xls2json:workbook_to_json"),
    shims=("S1", "S2", "S3", "S4"),
    symbolic="label present or not on each of 3 choice rows (3 symbolic booleans), the third row re-using the first row's name under allow_choice_duplicates (boolean), a second list placed before (boolean, shifts the row numbers), a label tracer character",
    bounds="one select over a list of 3 choices: exactly one 'should have a label' warning per unlabeled choice, citing its sheet row; no warning for labelled ones; the XForm is the same with or without the warnings' subject",
    weight=60,
)
def c20_choice_labels(l1: bool, l2: bool, l3: bool, dup: bool, shift: bool, c0: int) -> bool:
    """
    pre: 97 <= c0 <= 122
    post: _ == True
    """
    lab = S(c0, 65)
    ch = []
    if shift:
        ch.append({"list_name": "l0", "name": "z", "label": "Z"})
    first = len(ch)
    for i, (has, nm) in enumerate(((l1, "a"), (l2, "b"), (l3, "a" if dup else "c"))):
        r = {"list_name": "l1", "name": nm}
        if has:
            r["label"] = lab
        ch.append(r)
    wb = {"survey": [{"type": "select_one l1", "name": "q1", "label": "Q"}], "choices": ch, "choices_header": [{"list_name": None, "name": None, "label": None}]}
    if dup:
        wb["settings"] = [{"allow_choice_duplicates": "yes"}]
    survey, warnings, _js = build_survey(wb)
    survey.xml()
    hits = [w for w in warnings if "should have a label" in w]
    want_rows = [first + i + 2 for i, has in enumerate((l1, l2, l3)) if not has]
    if len(hits) != len(want_rows):
        return False
    for rn in want_rows:
        if len([w for w in hits if ("[row : " + str(rn) + "]") in w]) != 1:
            return False
    return True


# ---- b': Levenshtein on the real function, short strings (E1; round 3) -------------------------------
def _lev_ref(a: str, b: str) -> int:
    """Textbook recursive definition (independent of the implementation's row algorithm)."""
    if len(a) == 0:
        return len(b)
    if len(b) == 0:
        return len(a)
    if a[0] == b[0]:
        return _lev_ref(a[1:], b[1:])
    return 1 + min(_lev_ref(a[1:], b), _lev_ref(a, b[1:]), _lev_ref(a[1:], b[1:]))


def c20_lev_small(la: int, lb: int, a0: int, a1: int, a2: int, a3: int, b0: int, b1: int, b2: int, b3: int) -> bool:
    """
    vpre: 97 <= a0 <= 98 and 97 <= a1 <= 98 and 97 <= a2 <= 98 and 97 <= a3 <= 98
    vpre: 97 <= b0 <= 98 and 97 <= b1 <= 98 and 97 <= b2 <= 98 and 97 <= b3 <= 98
    vpost: _ == True
    """
    from pyxform.utils import levenshtein_distance

    a = S(*[a0, a1, a2, a3][:la])
    b = S(*[b0, b1, b2, b3][:lb])
    return levenshtein_distance(a, b) == _lev_ref(a, b)


specialise(
    "C20",
    "b.levenshtein-small",
    c20_lev_small,
    {"la": [0, 1, 2, 3, 4], "lb": [0, 1, 2, 3, 4]},
    skip_if=lambda fx: fx["la"] + fx["lb"] > 6,
    reach_if=lambda fx: fx["la"] == 2 and fx["lb"] == 2,
    timeout=400,
    kernel=("pyxform.utils:levenshtein_distance",),
    shims=(),
    symbolic="every character of both strings over a 2-letter alphabet (equal / different is all the algorithm observes)",
    bounds="string lengths fixed per instance, 0-4 each, sum <= 6; compared with the textbook recursive definition (whole function incl. any shortcut before the DP rows, which the row-step induction of b.levenshtein does not see)",
    weight=30,
)
