"""C08 — each language shows exactly the text written for it."""
from __future__ import annotations

from harness import shims
from harness.C07 import ASSUMPTIONS as _A7
from harness.C07 import K, c08_question, register
from harness.common import S
from vf.registry import ob, specialise

shims.standard()

from pyxform import aliases  # noqa: E402
from pyxform.parsing.sheet_headers import process_header, process_row, to_snake_case  # noqa: E402
from pyxform.question import MultipleChoiceQuestion  # noqa: E402

OUTSIDE = "forms with more than one translated question; more than 3 languages; language tokens longer than 3 characters"
ASSUMPTIONS = list(_A7) + ["header language tokens are symbolic only at the process_header unit (a.header-split); inside whole-form obligations they are concrete dict keys"]

register("C08", c08_question, "c.effective-text")

_COLS = set(MultipleChoiceQuestion.get_slot_names())
# documented translatable column spellings -> canonical token path
TRANSLATABLE = [
    ("label", ("label",)),
    ("hint", ("hint",)),
    ("guidance_hint", ("guidance_hint",)),
    ("constraint_message", ("bind", "jr:constraintMsg")),
    ("required_message", ("bind", "jr:requiredMsg")),
    ("image", ("media", "image")),
    ("audio", ("media", "audio")),
    ("video", ("media", "video")),
    ("media::image", ("media", "image")),
]


def c08_header_split(col: int, n: int, double: bool, sp_before: int, sp_after: int, t0: int, t1: int, t2: int) -> bool:
    """
    vpre: 0 <= sp_before <= 2 and 0 <= sp_after <= 2
    vpre: 33 <= t0 <= 126 and t0 != 58 and 33 <= t1 <= 126 and t1 != 58 and 33 <= t2 <= 126 and t2 != 58
    vpost: _ == True
    """
    spelling, canon = TRANSLATABLE[col]
    lang = S(*((t0, t1, t2)[:n]))
    if "::" in spelling and not double:
        return True  # a '::' spelling is by definition double-colon mode
    delim = "::" if double else ":"
    hdr = spelling + " " * sp_before + delim + " " * sp_after + lang
    if not double and (lang == "jr" or "jr" == lang.strip()):
        return True  # 'jr' is the reserved namespace prefix in single-colon mode
    _new, tokens = process_header(header=hdr, use_double_colon=double, header_aliases=aliases.survey_header, header_columns=_COLS)
    return tokens == (*canon, lang)


specialise(
    "C08",
    "a.header-split",
    c08_header_split,
    {"col": list(range(len(TRANSLATABLE))), "n": [1, 2]},
    reach_if=lambda fx: fx["n"] == 1,
    timeout=400,
    kernel=("pyxform.parsing.sheet_headers:process_header", "pyxform.parsing.sheet_headers:to_snake_case"),
    shims=(),
    symbolic="language token of n symbolic characters (U+0021-U+007E minus ':'), delimiter style (boolean), 0-2 spaces before and after the delimiter",
    bounds="one documented translatable column spelling and token length (1-2; 3 in thorough) per instance",
    weight=20,
)
specialise(
    "C08",
    "a.header-split",
    c08_header_split,
    {"col": list(range(len(TRANSLATABLE))), "n": [3]},
    reach_if=lambda fx: False,
    tiers=("thorough",),
    timeout=1800,
    kernel=("pyxform.parsing.sheet_headers:process_header", "pyxform.parsing.sheet_headers:to_snake_case"),
    shims=(),
    symbolic="language token of 3 symbolic characters, delimiter style, 0-2 spaces before and after the delimiter",
    bounds="token length 3",
    weight=600,
)


# ---- c: translations exist only for languages the sheets name (round 3) ------------------------------------
def c08_languages_named(la1: bool, la2: bool, lb1: bool, lb2: bool, ima: bool, q_plain: bool, c0: int) -> bool:
    """
    vpre: 97 <= c0 <= 122
    vpost: _ == True
    """
    from harness.common import build_survey, elements

    a = {"list_name": "l1", "name": "a"}
    b = {"list_name": "l1", "name": "b"}
    if la1:
        a["label::L1"] = S(c0, 49)
    if la2:
        a["label::L2"] = S(c0, 50)
    if ima:
        a["image::L1"] = "a.png"
    if lb1:
        b["label::L1"] = S(c0, 51)
    if lb2:
        b["label::L2"] = S(c0, 52)
    q = {"type": "select_one l1", "name": "q1"}
    named = set()
    if q_plain:
        q["label"] = "Q"
        named.add("default")
    else:
        q["label::L1"] = "Q1"
        q["label::L2"] = "Q2"
        named.update(("L1", "L2"))
    for r in (a, b):
        for k in r:
            if "::" in k:
                named.add(k.split("::")[1])
    survey, _w, _js = build_survey({"survey": [q], "choices": [a, b]})
    root = survey.xml()
    langs = [t.getAttribute("lang") for t in elements(root, "translation")]
    if len(langs) != len(set(langs)):
        return False
    for lg in langs:
        if lg not in named:
            return False  # a translation for a language no sheet, setting or argument mentions
    return True


specialise(
    "C08",
    "c.languages-named",
    c08_languages_named,
    {"q_plain": [False, True]},
    timeout=300,
    kernel=K + ("pyxform.survey:Survey._setup_translations", "pyxform.survey:Survey._add_empty_translations"),
    shims=("S1", "S2", "S3", "S4"),
    symbolic="presence of label::L1 / label::L2 on two choices and of an image::L1 on the first (5 symbolic booleans: choices may be left without any label or media), tracer character",
    bounds="one select over a 2-choice list; the question label is plain or translated (fixed per instance); every <translation lang> must be a language named by some column (the unlabelled-choice dangling id is C07's known finding F11 and is not judged here)",
    weight=40,
)
