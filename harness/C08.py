"""C08 — each language shows exactly the text written for it."""
from __future__ import annotations

from harness import shims
from harness.C07 import ASSUMPTIONS as _A7
from harness.C07 import K, c08_question, register
from harness.common import S
from vf.registry import ob, specialise

shims.standard()

from pyxform import aliases  # noqa: E402
from pyxform.parsing.sheet_headers import process_header, process_row, to_snake_case  # noqa: E402
from pyxform.question import MultipleChoiceQuestion  # noqa: E402

OUTSIDE = "forms with more than one translated question; more than 3 languages; language tokens longer than 3 characters"
ASSUMPTIONS = list(_A7) + ["header language tokens are symbolic only at the process_header unit (a.header-split); inside whole-form obligations they are concrete dict keys"]

register("C08", c08_question, "c.effective-text")

_COLS = set(MultipleChoiceQuestion.get_slot_names())
# documented translatable column spellings -> canonical token path
TRANSLATABLE = [
    ("label", ("label",)),
    ("hint", ("hint",)),
    ("guidance_hint", ("guidance_hint",)),
    ("constraint_message", ("bind", "jr:constraintMsg")),
    ("required_message", ("bind", "jr:requiredMsg")),
    ("image", ("media", "image")),
    ("audio", ("media", "audio")),
    ("video", ("media", "video")),
    ("media::image", ("media", "image")),
]


def c08_header_split(col: int, n: int, double: bool, sp_before: int, sp_after: int, t0: int, t1: int, t2: int) -> bool:
    """
    vpre: 0 <= sp_before <= 2 and 0 <= sp_after <= 2
    vpre: 33 <= t0 <= 126 and t0 != 58 and 33 <= t1 <= 126 and t1 != 58 and 33 <= t2 <= 126 and t2 != 58
    vpost: _ == True
    """
    spelling, canon = TRANSLATABLE[col]
    lang = S(*((t0, t1, t2)[:n]))
    if "::" in spelling and not double:
        return True  # a '::' spelling is by definition double-colon mode
    delim = "::" if double else ":"
    hdr = spelling + " " * sp_before + delim + " " * sp_after + lang
    if not double and (lang == "jr" or "jr" == lang.strip()):
        return True  # 'jr' is the reserved namespace prefix in single-colon mode
    _new, tokens = process_header(header=hdr, use_double_colon=double, header_aliases=aliases.survey_header, header_columns=_COLS)
    return tokens == (*canon, lang)


specialise(
    "C08",
    "a.header-split",
    c08_header_split,
    {"col": list(range(len(TRANSLATABLE))), "n": [1, 2]},
    reach_if=lambda fx: fx["n"] == 1,
    timeout=400,
    kernel=("pyxform.parsing.sheet_headers:process_header", "pyxform.parsing.sheet_headers:to_snake_case"),
    shims=(),
    symbolic="language token of n symbolic characters (U+0021-U+007E minus ':'), delimiter style (boolean), 0-2 spaces before and after the delimiter",
    bounds="one documented translatable column spelling and token length (1-2; 3 in thorough) per instance",
    weight=20,
)
specialise(
    "C08",
    "a.header-split",
    c08_header_split,
    {"col": list(range(len(TRANSLATABLE))), "n": [3]},
    reach_if=lambda fx: False,
    tiers=("thorough",),
    timeout=1800,
    kernel=("pyxform.parsing.sheet_headers:process_header", "pyxform.parsing.sheet_headers:to_snake_case"),
    shims=(),
    symbolic="language token of 3 symbolic characters, delimiter style, 0-2 spaces before and after the delimiter",
    bounds="token length 3",
    weight=600,
)
