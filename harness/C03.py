"""C03 — ${name} references become XPaths that reach the named question's node."""
from __future__ import annotations

import itertools

from harness import shims
from harness.common import S
from vf.registry import _srcfn, ob

shims.standard()

from pyxform.errors import PyXFormError  # noqa: E402
from pyxform.question import InputQuestion  # noqa: E402
from pyxform.section import GroupedSection, RepeatingSection  # noqa: E402
from pyxform.survey import Survey  # noqa: E402

OUTSIDE = "nesting deeper than the enumerated skeletons; names longer than 2 characters or outside [A-Za-z_][A-Za-z0-9_]; instance() boundary detection inside labels (C lexer)"
ASSUMPTIONS = [
    "S1 identity hash, S2 un-cached is_parent_a_repeat/share_same_repeat_parent, S3 list-backed survey._xpath built by the rule of _setup_xpath_dictionary",
    "element names pairwise distinct (forms with ambiguous names are rejected: C02.c / C03.d)",
]
K = (
    "pyxform.survey:Survey.insert_xpaths",
    "pyxform.survey:Survey._var_repl_function",
    "pyxform.survey:is_parent_a_repeat",
    "pyxform.survey:share_same_repeat_parent",
    "pyxform.survey_element:SurveyElement.has_common_repeat_parent",
    "pyxform.survey_element:SurveyElement.get_xpath",
    "pyxform.survey_element:SurveyElement.iter_ancestors",
)


def _section(kind: str, name: str):
    if kind == "r":
        return RepeatingSection(name=name, type="repeat", label="L")
    return GroupedSection(name=name, type="group", label="L")


def build_layout(ck: str, rk: str, tk: str, names):
    """Real element tree: data / C... / (R... / qr | T... / qt).  names: list of str in the
    order C sections, R sections, T sections, qr, qt.  Returns (survey, qr, qt, info)."""
    survey = Survey(name="data", id_string="x", title="x")
    it = iter(names)
    cur = survey
    cpath = ["data"]
    ckinds = []
    for k in ck:
        n = next(it)
        s = _section(k, n)
        cur.add_child(s)
        cur = s
        cpath.append(n)
        ckinds.append(k)
    rcur, rpath, rkinds = cur, list(cpath), list(ckinds)
    for k in rk:
        n = next(it)
        s = _section(k, n)
        rcur.add_child(s)
        rcur = s
        rpath.append(n)
        rkinds.append(k)
    tcur, tpath, tkinds = cur, list(cpath), list(ckinds)
    for k in tk:
        n = next(it)
        s = _section(k, n)
        tcur.add_child(s)
        tcur = s
        tpath.append(n)
        tkinds.append(k)
    nqr, nqt = next(it), next(it)
    qr = InputQuestion(name=nqr, type="text", label="L")
    qt = InputQuestion(name=nqt, type="text", label="L")
    rcur.add_child(qr)
    tcur.add_child(qt)
    shims.s3_prefill_xpath(survey)
    if survey._xpath is None:
        survey._setup_xpath_dictionary()
    return survey, qr, qt, (cpath, rpath + [nqr], tpath + [nqt], rkinds, tkinds, len(ck))


def reference_answers(rpath, tpath, ncommon):
    """Independent resolver: every XPath that, evaluated from the referrer node, identifies
    the target node: the absolute path, or '..' steps up to a common ancestor followed by the
    child steps down to the target."""
    absolute = "/" + "/".join(tpath)
    rel = []
    # common ancestors are the first (1 + ncommon) path segments (root + common sections)
    for depth in range(1, ncommon + 2):
        ups = len(rpath) - depth
        down = tpath[depth:]
        rel.append("/".join([".."] * ups + down))
    return absolute, rel


def must_be_relative(tkinds, ncommon) -> bool:
    """The target's innermost enclosing repeat also encloses the referrer."""
    innermost = -1
    for i, k in enumerate(tkinds):
        if k == "r":
            innermost = i
    return innermost >= 0 and innermost < ncommon


def check_layout(ck, rk, tk, names) -> bool:
    survey, qr, qt, (cpath, rpath, tpath, rkinds, tkinds, ncommon) = build_layout(ck, rk, tk, names)
    out = survey.insert_xpaths("${" + names[-1] + "} > 1", qr)
    if "${" in out:
        return False
    absolute, rel = reference_answers(rpath, tpath, ncommon)
    is_abs = out == " " + absolute + "  > 1"
    is_rel = False
    for r in rel:
        if out == " " + r + "  > 1":
            is_rel = True
    if not (is_abs or is_rel):
        return False
    if must_be_relative(tkinds, ncommon) and not is_rel:
        return False
    return True


def skeletons(max_total: int):
    for c in range(max_total + 1):
        for r in range(max_total + 1 - c):
            for t in range(max_total + 1 - c - r):
                for ck in itertools.product("gr", repeat=c):
                    for rk in itertools.product("gr", repeat=r):
                        for tk in itertools.product("gr", repeat=t):
                            yield "".join(ck), "".join(rk), "".join(tk)


def _name_pre(i: int, ln: int):
    first = f"(97 <= n{i}a <= 122 or 65 <= n{i}a <= 90 or n{i}a == 95)"
    if ln == 1:
        return [f"pre: {first}"]
    return [f"pre: {first} and (97 <= n{i}b <= 122 or 65 <= n{i}b <= 90 or n{i}b == 95 or 48 <= n{i}b <= 57)"]


def _gen_layout(ck, rk, tk, lens, tiers, timeout, weight):
    nn = len(ck) + len(rk) + len(tk) + 2
    params, pres, exprs = [], [], []
    for i in range(nn):
        if lens[i] == 1:
            params.append(f"n{i}a: int")
            exprs.append(f"S(n{i}a)")
        else:
            params += [f"n{i}a: int", f"n{i}b: int"]
            exprs.append(f"S(n{i}a, n{i}b)")
        pres += _name_pre(i, lens[i])
    # pairwise distinct names (case-insensitively distinct for same-length names)
    for i in range(nn):
        for j in range(i + 1, nn):
            if lens[i] == lens[j]:
                if lens[i] == 1:
                    pres.append(f"pre: n{i}a != n{j}a and n{i}a != n{j}a + 32 and n{i}a + 32 != n{j}a")
                else:
                    pres.append(f"pre: not (n{i}a == n{j}a and n{i}b == n{j}b) and not (n{i}a == n{j}a + 32 and n{i}b == n{j}b) and not (n{i}a + 32 == n{j}a and n{i}b == n{j}b)")
    pres.append("post: _ == True")
    tag = f"{ck or '-'}.{rk or '-'}.{tk or '-'}.L{''.join(map(str, lens))}"
    name = "c03_layout_" + tag.replace("-", "0").replace(".", "_")
    body = f"    return check_layout({ck!r}, {rk!r}, {tk!r}, [{', '.join(exprs)}])"
    fn = _srcfn(name, params, pres, body, globals())
    fn.__module__ = __name__
    ob(
        "C03",
        f"a.layout[{tag}]",
        tiers=tiers,
        timeout=timeout,
        kernel=K,
        shims=("S1", "S2", "S3"),
        symbolic=f"all {nn} element names (lengths {lens}) over [A-Za-z_][A-Za-z0-9_], pairwise distinct",
        bounds=f"layout skeleton: common chain '{ck}', referrer chain '{rk}', target chain '{tk}' (g=group, r=repeat); expression '${{T}} > 1'",
        weight=weight,
    )(fn)


for _ck, _rk, _tk in skeletons(3):
    _tot = len(_ck) + len(_rk) + len(_tk)
    _nn = _tot + 2
    if _tot <= 2:
        _gen_layout(_ck, _rk, _tk, [2] * _nn, ("quick", "thorough"), 300 + 200 * _tot, 40 + 60 * _tot)
    else:
        _gen_layout(_ck, _rk, _tk, [1] * _nn, ("thorough",), 900, 300)
    if 1 <= _tot <= 2:
        # prefix-confusion pattern: sections 1 character, questions 2 characters
        _gen_layout(_ck, _rk, _tk, [1] * _tot + [2, 2], ("thorough",), 600, 100)
