"""C03 — ${name} references become XPaths that reach the named question's node."""
from __future__ import annotations

import itertools

from harness import shims
from harness.common import S
from vf.registry import _srcfn, ob

shims.standard()

from pyxform.errors import PyXFormError  # noqa: E402
from pyxform.question import InputQuestion  # noqa: E402
from pyxform.section import GroupedSection, RepeatingSection  # noqa: E402
from pyxform.survey import Survey  # noqa: E402

OUTSIDE = "nesting deeper than the enumerated skeletons; symbolic names longer than 2 characters or outside [a-z] (names with digits, case and punctuation are exercised concretely in b/d); instance() boundary detection inside labels (C lexer)"
ASSUMPTIONS = [
    "S1 identity hash, S2 un-cached is_parent_a_repeat/share_same_repeat_parent, S3 list-backed survey._xpath built by the rule of _setup_xpath_dictionary",
    "element names pairwise distinct (forms with ambiguous names are rejected: C02.c / C03.d)",
]
K = (
    "pyxform.survey:Survey.insert_xpaths",
    "pyxform.survey:Survey._var_repl_function",
    "pyxform.survey:is_parent_a_repeat",
    "pyxform.survey:share_same_repeat_parent",
    "pyxform.survey_element:SurveyElement.has_common_repeat_parent",
    "pyxform.survey_element:SurveyElement.get_xpath",
    "pyxform.survey_element:SurveyElement.iter_ancestors",
)


def _section(kind: str, name: str):
    if kind == "r":
        return RepeatingSection(name=name, type="repeat", label="L")
    return GroupedSection(name=name, type="group", label="L")


def build_layout(ck: str, rk: str, tk: str, names, decoy=None):
    """Real element tree: data / C... / (R... / qr | T... / qt).  names: list of str in the
    order C sections, R sections, T sections, qr, qt.  Returns (survey, qr, qt, info)."""
    survey = Survey(name="data", id_string="x", title="x")
    it = iter(names)
    cur = survey
    cpath = ["data"]
    ckinds = []
    for k in ck:
        n = next(it)
        s = _section(k, n)
        cur.add_child(s)
        cur = s
        cpath.append(n)
        ckinds.append(k)
    rcur, rpath, rkinds = cur, list(cpath), list(ckinds)
    for k in rk:
        n = next(it)
        s = _section(k, n)
        rcur.add_child(s)
        rcur = s
        rpath.append(n)
        rkinds.append(k)
    tcur, tpath, tkinds = cur, list(cpath), list(ckinds)
    for k in tk:
        n = next(it)
        s = _section(k, n)
        tcur.add_child(s)
        tcur = s
        tpath.append(n)
        tkinds.append(k)
    nqr, nqt = next(it), next(it)
    qr = InputQuestion(name=nqr, type="text", label="L")
    qt = InputQuestion(name=nqt, type="text", label="L")
    rcur.add_child(qr)
    tcur.add_child(qt)
    if decoy is not None:
        # an unrelated, never-referenced question in its own root-level group; its name may
        # coincide with a section name elsewhere (legal: only sibling/section names must differ)
        dg = GroupedSection(name="zz9", type="group", label="L")
        survey.add_child(dg)
        dg.add_child(InputQuestion(name=decoy, type="text", label="L"))
    shims.s3_prefill_xpath(survey)
    if survey._xpath is None:
        survey._setup_xpath_dictionary()
    return survey, qr, qt, (cpath, rpath + [nqr], tpath + [nqt], rkinds, tkinds, len(ck))


def reference_answers(rpath, tpath, ncommon=None):
    """Independent resolver: every XPath that, evaluated from the referrer node, identifies
    the target node: the absolute path, or '..' steps up to a common ancestor (at least one
    step, so that the path starts at an element) followed by the child steps down to the
    target.  The referrer may be the target itself or one of its ancestors."""
    absolute = "/" + "/".join(tpath)
    lcp = 0
    while lcp < len(rpath) and lcp < len(tpath) and rpath[lcp] == tpath[lcp]:
        lcp += 1
    rel = []
    for depth in range(1, lcp + 1):
        ups = len(rpath) - depth
        if ups < 1:
            continue
        down = tpath[depth:]
        rel.append("/".join([".."] * ups + down))
    return absolute, rel


def must_be_relative(tkinds, ncommon) -> bool:
    """The target's innermost enclosing repeat also encloses the referrer."""
    innermost = -1
    for i, k in enumerate(tkinds):
        if k == "r":
            innermost = i
    return innermost >= 0 and innermost < ncommon


def check_layout(ck, rk, tk, names, decoy=None) -> bool:
    survey, qr, qt, (cpath, rpath, tpath, rkinds, tkinds, ncommon) = build_layout(ck, rk, tk, names, decoy)
    out = survey.insert_xpaths("${" + names[-1] + "} > 1", qr)
    if "${" in out:
        return False
    absolute, rel = reference_answers(rpath, tpath, ncommon)
    is_abs = out == " " + absolute + "  > 1"
    is_rel = False
    for r in rel:
        if out == " " + r + "  > 1":
            is_rel = True
    if not (is_abs or is_rel):
        return False
    if must_be_relative(tkinds, ncommon) and not is_rel:
        return False
    return True


def skeletons(max_total: int):
    for c in range(max_total + 1):
        for r in range(max_total + 1 - c):
            for t in range(max_total + 1 - c - r):
                for ck in itertools.product("gr", repeat=c):
                    for rk in itertools.product("gr", repeat=r):
                        for tk in itertools.product("gr", repeat=t):
                            yield "".join(ck), "".join(rk), "".join(tk)


def _name_pre(i: int, ln: int):
    # contiguous ranges only: a disjunction in a precondition forks the search at every name
    if ln == 1:
        return [f"pre: 97 <= n{i}a <= 122"]
    return [f"pre: 97 <= n{i}a <= 122 and 97 <= n{i}b <= 122"]


def _gen_layout(ck, rk, tk, lens, tiers, timeout, weight, decoy=False):
    nn = len(ck) + len(rk) + len(tk) + 2
    params, pres, exprs = [], [], []
    for i in range(nn):
        if lens[i] == 1:
            params.append(f"n{i}a: int")
            exprs.append(f"S(n{i}a)")
        else:
            params += [f"n{i}a: int", f"n{i}b: int"]
            exprs.append(f"S(n{i}a, n{i}b)")
        pres += _name_pre(i, lens[i])
    # pairwise distinct names (case-insensitively distinct for same-length names)
    for i in range(nn):
        for j in range(i + 1, nn):
            if lens[i] == lens[j]:
                if lens[i] == 1:
                    pres.append(f"pre: n{i}a != n{j}a")
                else:
                    pres.append(f"pre: n{i}a * 256 + n{i}b != n{j}a * 256 + n{j}b")
    dexpr = "None"
    if decoy:
        params += ["da: int", "db: int"]
        pres.append("pre: 97 <= da <= 122 and 97 <= db <= 122")
        # the decoy differs from the two question names (the reference must stay unambiguous)
        for i in (nn - 2, nn - 1):
            if lens[i] == 2:
                pres.append(f"pre: n{i}a * 256 + n{i}b != da * 256 + db")
        dexpr = "S(da, db)"
    pres.append("post: _ == True")
    tag = f"{ck or '-'}.{rk or '-'}.{tk or '-'}.L{''.join(map(str, lens))}" + ("+decoy" if decoy else "")
    name = "c03_layout_" + tag.replace("-", "0").replace(".", "_").replace("+", "_")
    body = f"    return check_layout({ck!r}, {rk!r}, {tk!r}, [{', '.join(exprs)}], {dexpr})"
    fn = _srcfn(name, params, pres, body, globals())
    fn.__module__ = __name__
    ob(
        "C03",
        f"a.layout[{tag}]",
        tiers=tiers,
        timeout=timeout,
        kernel=K,
        shims=("S1", "S2", "S3"),
        symbolic=f"all {nn} element names (lengths {lens}) over [a-z], pairwise distinct" + ("; plus the 2-character name of an unrelated question in a separate group, which may coincide with any section name" if decoy else ""),
        bounds=f"layout skeleton: common chain '{ck}', referrer chain '{rk}', target chain '{tk}' (g=group, r=repeat); expression '${{T}} > 1'",
        weight=weight,
    )(fn)


for _ck, _rk, _tk in skeletons(3):
    _tot = len(_ck) + len(_rk) + len(_tk)
    _nn = _tot + 2
    if _tot == 0:
        _gen_layout(_ck, _rk, _tk, [2] * _nn, ("quick", "thorough"), 300, 40)
    elif _tot == 1:
        _gen_layout(_ck, _rk, _tk, [2] * _nn, ("quick", "thorough"), 500, 120, decoy=True)
    elif _tot == 2:
        _gen_layout(_ck, _rk, _tk, [2] * _nn, ("quick", "thorough"), 500, 100)
        _gen_layout(_ck, _rk, _tk, [2] * _nn, ("thorough",), 1500, 500, decoy=True)
    else:
        _gen_layout(_ck, _rk, _tk, [1] * _nn, ("thorough",), 900, 300)
    if 1 <= _tot <= 2:
        # prefix-confusion pattern: sections 1 character, questions 2 characters
        _gen_layout(_ck, _rk, _tk, [1] * _tot + [2, 2], ("thorough",), 600, 100)


# ---- d: unknown / ambiguous references ------------------------------------------------------
from harness.common import build_survey, child_elements, elements, text_of  # noqa: E402
from vf.registry import specialise  # noqa: E402


def c03_ambiguous(k: int, ref_first: bool, in_label: bool, l0: int) -> bool:
    """
    vpre: 0 <= k <= 5
    vpre: 33 <= l0 <= 126 and l0 != 36
    vpost: _ == True
    """
    lab = S(l0, 65)
    rows = []
    # the cell holding the reference is concrete: the C lexer would realise a symbolic one
    refrow = {"type": "text", "name": "r", "label": "R ${a}" if in_label else "R"}
    if not in_label:
        refrow["relevant"] = "${a} = 1"
    if ref_first:
        rows.append(refrow)
    for i in range(k):
        rows += [{"type": "begin group", "name": f"g{i}", "label": "G"}, {"type": "text", "name": "a", "label": lab}, {"type": "end group"}]
    if not ref_first:
        rows.append(refrow)
    try:
        survey, _w, _js = build_survey({"survey": rows}, prefill=False)
        root = survey.xml()
    except PyXFormError as e:
        return k != 1 and "a" in str(e) and "${a}" in str(e)
    if k != 1:
        return False
    b = [x for x in elements(root, "bind") if x.getAttribute("nodeset") == "/data/r"]
    if in_label:
        outs = elements(root, "output")
        return len(outs) == 1 and outs[0].getAttribute("value").strip() == "/data/g0/a"
    return len(b) == 1 and b[0].getAttribute("relevant") == " /data/g0/a  = 1"


specialise(
    "C03",
    "d.unknown-ambiguous",
    c03_ambiguous,
    {"in_label": [False, True]},
    timeout=300,
    kernel=K + ("pyxform.survey:Survey._setup_xpath_dictionary", "pyxform.survey:Survey.insert_output_values"),
    shims=("S1", "S2", "S4"),
    symbolic="number k (0..5) of groups that each define a question named 'a', position of the referring row (boolean), a symbolic label character",
    bounds="reference ${a} in a relevant cell / in a label (fixed per instance); the real _setup_xpath_dictionary runs (names concrete)",
    weight=60,
)


# ---- b: consumers of references ----------------------------------------------------------------
CELLS_B = ["relevant", "constraint", "calculation", "required", "read_only", "label", "hint", "default", "choice_filter", "repeat_count", "last-saved", "constraint_message"]


def _kinds(bits: int, n: int) -> str:
    return "".join("r" if (bits >> i) & 1 else "g" for i in range(n))


def c03_cells(cell: int, nc: int, nr: int, nt: int, cb: int, rb: int, tb: int, x0: int, who: int = 0) -> bool:
    """
    who: 0 = the cell sits on a question of the referrer chain; 1 = on the target question itself
    (self reference); 2 = on the innermost section that encloses the target (label / relevant of a
    group or repeat mentioning its own descendant).
    vpre: 0 <= cb < (1 << nc) and 0 <= rb < (1 << nr) and 0 <= tb < (1 << nt)
    vpre: 33 <= x0 <= 126 and x0 != 36
    vpost: _ == True
    """
    ck, rk, tk = _kinds(cb, nc), _kinds(rb, nr), _kinds(tb, nt)
    X = "5"  # cells holding a reference are concrete (C lexer); x0 is a tracer on the target's label
    kind = CELLS_B[cell]
    rows = []
    path = ["data"]
    for i, k in enumerate(ck):
        rows.append({"type": "begin " + ("repeat" if k == "r" else "group"), "name": f"c{i}", "label": "C"})
        path.append(f"c{i}")
    # target branch first
    tpath = list(path)
    for i, k in enumerate(tk):
        rows.append({"type": "begin " + ("repeat" if k == "r" else "group"), "name": f"t{i}", "label": "T"})
        tpath.append(f"t{i}")
    tq_row = {"type": "integer", "name": "tq", "label": S(x0, 84)}
    rows.append(tq_row)
    sec_row = None
    for r0 in rows:
        if r0["type"].startswith("begin"):
            sec_row = r0  # innermost open section = the last begin row so far
    tsec_path = list(tpath)
    tpath.append("tq")
    for k in reversed(tk):
        rows.append({"type": "end " + ("repeat" if k == "r" else "group")})
    rpath = list(path)
    for i, k in enumerate(rk):
        rows.append({"type": "begin " + ("repeat" if k == "r" else "group"), "name": f"r{i}", "label": "R"})
        rpath.append(f"r{i}")
    q = {"type": "text", "name": "rq", "label": "RQ"}
    expr = "${tq} > " + X
    if kind in ("relevant", "constraint", "calculation", "required", "read_only"):
        q[kind] = expr
    elif kind == "label":
        q["label"] = "v" + X + " ${tq} w"
    elif kind == "hint":
        q["hint"] = "v" + X + " ${tq} w"
    elif kind == "default":
        q["default"] = "${tq} + " + X
    elif kind == "choice_filter":
        q = {"type": "select_one l1", "name": "rq", "label": "RQ", "choice_filter": "f = ${tq} + " + X}
    elif kind == "repeat_count":
        q = None
        rows.append({"type": "begin repeat", "name": "rq", "label": "RQ", "repeat_count": "${tq}"})
        rows.append({"type": "text", "name": "inner", "label": "I" + X})
        rows.append({"type": "end repeat"})
    elif kind == "last-saved":
        q["default"] = "${last-saved#tq}"
        q["label"] = "RQ" + X
    elif kind == "constraint_message":
        q["constraint"] = ". != 1"
        q["constraint_message"] = "m" + X + " ${tq}"
    if who == 1:  # self reference: move the cell onto the target row
        for kk in ("relevant", "constraint", "calculation", "required", "read_only", "hint"):
            if kk in q:
                tq_row[kk] = q[kk]
        if kind == "label":
            tq_row["label"] = q["label"]
        q = {"type": "text", "name": "rq", "label": "RQ"}
    elif who == 2:  # enclosing section refers to its descendant
        for kk in ("relevant", "label"):
            if kk in q and (kk != "label" or kind == "label"):
                sec_row[kk] = q[kk]
        q = {"type": "text", "name": "rq", "label": "RQ"}
    if q is not None:
        rows.append(q)
    rpath.append("rq")
    for k in reversed(rk):
        rows.append({"type": "end " + ("repeat" if k == "r" else "group")})
    for k in reversed(ck):
        rows.append({"type": "end " + ("repeat" if k == "r" else "group")})
    wb = {"survey": rows, "choices": [{"list_name": "l1", "name": "a", "label": "A", "f": "1"}]}
    survey, _w, _js = build_survey(wb, prefill=False)
    root = survey.xml()
    if who == 1:
        rpath = list(tpath)
    elif who == 2:
        rpath = list(tsec_path)
    absolute, rel = reference_answers(rpath, tpath)
    tkinds = list(ck) + list(tk)
    # relative form required when the target's innermost enclosing repeat also encloses the referrer
    inner = -1
    for i, k in enumerate(tkinds):
        if k == "r":
            inner = i
    if who == 0:
        need_rel = must_be_relative(tkinds, nc)
    elif who == 1:
        need_rel = inner >= 0
    else:
        need_rel = inner >= 0 and inner < len(tkinds) - 1  # a repeat strictly above the referring section
    RQ = "/" + "/".join(rpath)

    def classify(tok: str, current: bool = False):
        """-> 'abs' | 'rel' | None for a substituted reference token"""
        t = tok.strip()
        if t == absolute:
            return "abs"
        pre = "current()/" if current else ""
        for r in rel:
            if t == pre + r:
                return "rel"
        return None

    def ok(tok: str, current: bool = False):
        c = classify(tok, current)
        if c is None:
            return False
        return not (need_rel and c != "rel")

    xml_text_refs = [e.getAttribute(a) for e in elements(root) for a in e.attributes.keys()]
    for v in xml_text_refs:
        if "${" in v:
            return False
    bind = [x for x in elements(root, "bind") if x.getAttribute("nodeset") == RQ]
    attr = {"relevant": "relevant", "constraint": "constraint", "calculation": "calculate", "required": "required", "read_only": "readonly"}
    if kind in attr:
        v = bind[0].getAttribute(attr[kind])
        if not v.endswith(" > " + X):
            return False
        return ok(v[: -len(" > " + X)])
    if kind in ("label", "hint"):
        ctl = [e for e in elements(root) if e.tagName in ("input", "group") and e.getAttribute("ref") == RQ][0]
        el = [c for c in child_elements(ctl) if c.tagName == kind][0]
        outs = [c for c in child_elements(el) if c.tagName == "output"]
        if len(outs) != 1 or not ok(outs[0].getAttribute("value")):
            return False
        return text_of(el).replace(" ", "") == "v" + X + "w"
    if kind == "default":
        svs = [e for e in elements(root, "setvalue") if e.getAttribute("ref") == RQ]
        if len(svs) != 1:
            return False
        v = svs[0].getAttribute("value")
        return v.endswith(" + " + X) and ok(v[: -len(" + " + X)])
    if kind == "choice_filter":
        its = elements(root, "itemset")
        ns = its[0].getAttribute("nodeset")
        head = "instance('l1')/root/item[f = "
        if not (ns.startswith(head) and ns.endswith(" + " + X + "]")):
            return False
        return ok(ns[len(head) : -len(" + " + X + "]")], current=True)
    if kind == "repeat_count":
        rp = [e for e in elements(root, "repeat") if e.getAttribute("nodeset") == RQ]
        return len(rp) == 1 and ok(rp[0].getAttribute("jr:count"))
    if kind == "last-saved":
        prim = child_elements(elements(root, "instance")[0])[0]
        svs = [e for e in elements(root, "setvalue") if e.getAttribute("ref") == RQ]
        ls = [i for i in elements(root, "instance") if i.getAttribute("id") == "__last-saved"]
        if len(ls) != 1 or ls[0].getAttribute("src") != "jr://instance/last-saved" or len(svs) != 1:
            return False
        return svs[0].getAttribute("value").strip() == "instance('__last-saved')" + absolute
    if kind == "constraint_message":
        v = bind[0].getAttribute("jr:constraintMsg")
        if v != "jr:itext('" + RQ + ":jr:constraintMsg')":
            return False
        vals = [t for t in elements(root, "text") if t.getAttribute("id") == RQ + ":jr:constraintMsg"]
        if len(vals) != 1:
            return False
        outs = elements(vals[0], "output")
        return len(outs) == 1 and ok(outs[0].getAttribute("value"))
    return False


specialise(
    "C03",
    "b.cell-kinds",
    c03_cells,
    {"cell": list(range(len(CELLS_B))), "who": [0], "nc": [1], "nr": [0, 1], "nt": [0, 1]},
    reach_if=lambda fx: fx["nr"] == 0 and fx["nt"] == 0,
    timeout=400,
    kernel=K + ("pyxform.survey:Survey.insert_output_values", "pyxform.question:MultipleChoiceQuestion.build_xml", "pyxform.section:RepeatingSection.xml_control", "pyxform.survey_element:SurveyElement.get_setvalue_node_for_dynamic_default", "pyxform.survey:Survey._generate_last_saved_instance"),
    shims=("S1", "S2", "S4"),
    symbolic="group/repeat kind of every section on the common, referrer and target chains (3 symbolic ints; the solver branches over every kind assignment) and a symbolic label character on the target row; the cell holding the reference is concrete because the C lexer would realise it",
    bounds="consumer cell kind and chain lengths (common 1, referrer 0-1, target 0-1) fixed per instance; names concrete so the real _setup_xpath_dictionary and lexer run",
    weight=50,
)
_KB = K + ("pyxform.survey:Survey.insert_output_values", "pyxform.section:RepeatingSection.xml_control", "pyxform.section:GroupedSection.xml_control")
specialise(
    "C03",
    "b.deep-chains",
    c03_cells,
    {"cell": [0], "who": [0], "nc": [1, 2], "nr": [0, 1, 2], "nt": [0, 1, 2]},
    skip_if=lambda fx: (fx["nc"] == 1 and fx["nr"] <= 1 and fx["nt"] <= 1) or fx["nc"] + fx["nr"] + fx["nt"] > 4,
    reach_if=lambda fx: fx["nr"] == 0 and fx["nt"] == 0,
    timeout=600,
    kernel=_KB,
    shims=("S1", "S2", "S4"),
    symbolic="group/repeat kind of every section on the common, referrer and target chains (up to 6 symbolic bits: the solver branches over every kind assignment, e.g. repeat > repeat > repeat referring into a group of the outer repeat) and a label tracer",
    bounds="relevant cell; chain lengths common 1-2, referrer 0-2, target 0-2 fixed per instance, at most 4 sections in total (deeper: thorough tier)",
    weight=120,
)
specialise(
    "C03",
    "b.deep-chains",
    c03_cells,
    {"cell": [0], "who": [0], "nc": [1, 2], "nr": [0, 1, 2], "nt": [0, 1, 2]},
    skip_if=lambda fx: fx["nc"] + fx["nr"] + fx["nt"] <= 4,
    reach_if=lambda fx: False,
    tiers=("thorough",),
    timeout=900,
    kernel=_KB,
    shims=("S1", "S2", "S4"),
    symbolic="group/repeat kind of every section on the common, referrer and target chains (5-6 symbolic bits) and a label tracer",
    bounds="relevant cell; 5-6 sections in total",
    weight=500,
)
specialise(
    "C03",
    "b.self-reference",
    c03_cells,
    {"cell": [0, 1, 5], "who": [1], "nc": [1], "nr": [0], "nt": [0, 1, 2]},
    reach_if=lambda fx: fx["nt"] == 0,
    timeout=400,
    kernel=_KB,
    shims=("S1", "S2", "S4"),
    symbolic="group/repeat kind of every section above the question (symbolic bits) and a label tracer; the cell (relevant / constraint / label) sits on the very question it mentions",
    bounds="the referrer is the target; chain lengths common 1, target 0-2 fixed per instance",
    weight=60,
)
specialise(
    "C03",
    "b.section-refers-to-descendant",
    c03_cells,
    {"cell": [0, 5], "who": [2], "nc": [1], "nr": [0], "nt": [0, 1, 2]},
    reach_if=lambda fx: fx["nt"] == 0,
    timeout=400,
    kernel=_KB,
    shims=("S1", "S2", "S4"),
    symbolic="group/repeat kind of every section (symbolic bits) and a label tracer; the cell (relevant / label) sits on the innermost group or repeat that encloses the target question",
    bounds="the referrer is an ancestor section of the target; chain lengths common 1, target 0-2 fixed per instance",
    weight=60,
)
specialise(
    "C03",
    "b.cell-kinds",
    c03_cells,
    {"cell": list(range(len(CELLS_B))), "who": [0], "nc": [0, 2], "nr": [0, 1, 2], "nt": [0, 1, 2]},
    reach_if=lambda fx: False,
    tiers=("thorough",),
    timeout=900,
    kernel=K,
    shims=("S1", "S2", "S4"),
    symbolic="group/repeat kind of every section on the common, referrer and target chains and a symbolic label character on the target row",
    bounds="consumer cell kind and chain lengths (common 0/2, referrer 0-2, target 0-2) fixed per instance",
    weight=200,
)


# ---- f: reference forms found by review (round 3): prefix-named sibling repeats, references to the enclosing
# repeat itself, several indexed-repeat() calls, select-from-repeat filters, triggered calculations, ${root} ----
def _resolve(ctx, tok):
    """Independent evaluator of the location paths pyxform emits: absolute '/a/b', or ('current()/')? ('../')* steps
    evaluated from the context node (a list of element names from the root).  Returns the list of names or None."""
    t = tok.strip()
    if t.startswith("current()/"):
        t = t[len("current()/") :]
    if t.startswith("/"):
        return t[1:].split("/")
    cur = list(ctx)
    for step in t.split("/"):
        if step == "..":
            if len(cur) <= 1:
                return None
            cur = cur[:-1]
        elif step == ".":
            pass
        elif step == "":
            return None
        else:
            cur = cur + [step]
    return cur


def _sec(k, name, **kw):
    d = {"type": "begin " + ("repeat" if k else "group"), "name": name, "label": "L"}
    d.update(kw)
    return d


def _end(k):
    return {"type": "end " + ("repeat" if k else "group")}


PREFIX_NAMES = [("rep", "rep2"), ("rep2", "rep"), ("ab", "abc"), ("abc", "ab"), ("rep", "qrep"), ("p", "q")]


def c03_prefix_siblings(pair: int, k0: bool, k1: bool, k2: bool, x0: int) -> bool:
    """
    vpre: 33 <= x0 <= 126 and x0 != 36
    vpost: _ == True
    """
    a, b = PREFIX_NAMES[pair]
    rows = [_sec(k0, "o"), _sec(k1, a), {"type": "integer", "name": "x", "label": S(x0, 88)}, _end(k1), _sec(k2, b), {"type": "calculate", "name": "y", "calculation": "${x} + 1"}, {"type": "text", "name": "t", "label": "T"}, _end(k2), _end(k0)]
    survey, _w, _js = build_survey({"survey": rows}, prefill=False)
    root = survey.xml()
    b_ = [e for e in elements(root, "bind") if e.getAttribute("nodeset") == "/data/o/" + b + "/y"]
    if len(b_) != 1:
        return False
    v = b_[0].getAttribute("calculate")
    if not v.endswith(" + 1") or "${" in v:
        return False
    tok = v[: -len(" + 1")]
    if _resolve(["data", "o", b, "y"], tok) != ["data", "o", a, "x"]:
        return False
    # relative required when the target's innermost enclosing repeat (o, if the target's own section is a group) encloses the referrer
    need_rel = (not k1) and k0
    return not (need_rel and tok.strip().startswith("/"))


specialise(
    "C03",
    "f.prefix-siblings",
    c03_prefix_siblings,
    {"pair": list(range(len(PREFIX_NAMES)))},
    reach_if=lambda fx: fx["pair"] == 0,
    timeout=300,
    kernel=K + ("pyxform.survey:share_same_repeat_parent", "pyxform.survey:is_parent_a_repeat"),
    shims=("S1", "S2", "S4"),
    symbolic="group/repeat kind of the outer section and of the two sibling sections (3 symbolic booleans), label tracer on the target",
    bounds="sibling section names fixed per instance from a menu in which one name is a string prefix / suffix of the other (rep/rep2, ab/abc, rep/qrep) or unrelated; calculation '${x} + 1' in the second sibling referring into the first; emitted path evaluated by an independent location-path resolver",
    weight=30,
)


def c03_indexed_repeats(n: int, tail: bool, lead: bool, x0: int) -> bool:
    """
    vpre: 1 <= n <= 4
    vpre: 33 <= x0 <= 126 and x0 != 36
    vpost: _ == True
    """
    names = ["a", "b", "a", "b"]
    calls = ["indexed-repeat(${%s}, ${r}, %d)" % (names[i], i + 1) for i in range(n)]
    expr = " + ".join((["${c}"] if lead else []) + calls + (["${c}"] if tail else []))
    rows = [_sec(True, "r"), {"type": "integer", "name": "a", "label": S(x0, 65)}, {"type": "integer", "name": "b", "label": "B"}, {"type": "integer", "name": "c", "label": "C"}, {"type": "calculate", "name": "y", "calculation": expr}, _end(True)]
    survey, _w, _js = build_survey({"survey": rows}, prefill=False)
    root = survey.xml()
    b_ = [e for e in elements(root, "bind") if e.getAttribute("nodeset") == "/data/r/y"]
    if len(b_) != 1:
        return False
    v = b_[0].getAttribute("calculate")
    want = " + ".join(([" ../c "] if lead else []) + ["indexed-repeat( /data/r/%s ,  /data/r , %d)" % (names[i], i + 1) for i in range(n)] + ([" ../c "] if tail else []))
    return v == want


specialise(
    "C03",
    "f.indexed-repeats",
    c03_indexed_repeats,
    {"tail": [False, True]},
    timeout=300,
    kernel=K,
    shims=("S1", "S2", "S4"),
    symbolic="number of indexed-repeat() calls in one calculation (1..4), presence of a plain ${c} before the first call, label tracer",
    bounds="one repeat with three questions; plain ${c} after the last call present / absent per instance; every indexed-repeat argument must be absolute and every plain reference relative (property statement)",
    weight=30,
)


def c03_root_reference(depth: int, k0: bool, k1: bool, in_label: bool, x0: int) -> bool:
    """
    vpre: 0 <= depth <= 2
    vpre: 33 <= x0 <= 126 and x0 != 36
    vpost: _ == True
    """
    ks = [k0, k1][:depth]
    rows = [_sec(k, "g%d" % i) for i, k in enumerate(ks)]
    q = {"type": "text", "name": "y", "label": S(x0, 89)}
    if in_label:
        q["label"] = "v ${data} w"
    else:
        q["relevant"] = "count(${data}) > 0"
    rows.append(q)
    rows += [_end(k) for k in reversed(ks)]
    survey, _w, _js = build_survey({"survey": rows}, prefill=False)
    root = survey.xml()
    path = "/data/" + "".join("g%d/" % i for i in range(depth)) + "y"
    if in_label:
        outs = elements(root, "output")
        return len(outs) == 1 and _resolve(path[1:].split("/"), outs[0].getAttribute("value")) == ["data"]
    b_ = [e for e in elements(root, "bind") if e.getAttribute("nodeset") == path]
    v = b_[0].getAttribute("relevant")
    return v.startswith("count(") and v.endswith(") > 0") and _resolve(path[1:].split("/"), v[6:-5]) == ["data"]


specialise(
    "C03",
    "f.root-reference",
    c03_root_reference,
    {"in_label": [False, True]},
    timeout=300,
    kernel=K,
    shims=("S1", "S2", "S4"),
    symbolic="nesting depth of the referring question (0..2), group/repeat kind of each enclosing section, label tracer",
    bounds="reference ${data} to the form's root element from a relevant cell / a label (fixed per instance)",
    weight=30,
)


def c03_known_forms(which: int, k0: bool, x0: int) -> bool:
    """
    vpre: 33 <= x0 <= 126 and x0 != 36
    vpost: _ == True
    """
    if which == 0:
        # a calculation inside nested repeat r2 counts r2 itself
        rows = [_sec(k0, "r1"), _sec(True, "r2"), {"type": "integer", "name": "x", "label": S(x0, 88)}, {"type": "calculate", "name": "y", "calculation": "count(${r2})"}, _end(True), _end(k0)]
        survey, _w, _js = build_survey({"survey": rows}, prefill=False)
        root = survey.xml()
        v = [e for e in elements(root, "bind") if e.getAttribute("nodeset") == "/data/r1/r2/y"][0].getAttribute("calculate")
        return v.startswith("count(") and v.endswith(")") and _resolve(["data", "r1", "r2", "y"], v[6:-1]) == ["data", "r1", "r2"]
    if which == 1:
        # select from repeat whose choice filter mentions a question whose name starts with the repeat's name
        rows = [{"type": "integer", "name": "person_min", "label": S(x0, 77)}, _sec(True, "person"), {"type": "text", "name": "pname", "label": "N"}, {"type": "integer", "name": "age", "label": "A"}, _end(True), {"type": "select_one ${pname}", "name": "pick", "label": "P", "choice_filter": "${age} > ${person_min}"}]
        survey, _w, _js = build_survey({"survey": rows}, prefill=False)
        root = survey.xml()
        ns = elements(root, "itemset")[0].getAttribute("nodeset")
        if not (ns.startswith("/data/person[") and ns.endswith("]")):
            return False
        left, _gt, right = ns[len("/data/person[") : -1].partition(">")
        # the predicate is evaluated on a /data/person node
        return _resolve(["data", "person"], left) == ["data", "person", "age"] and _resolve(["data", "person"], right) == ["data", "person_min"]
    # a triggered calculation deeper in the repeat than its trigger: the setvalue's value is evaluated with the ref node (the
    # question the calculation cell belongs to) as context
    rows = [_sec(True, "r"), {"type": "integer", "name": "q1", "label": S(x0, 81)}, {"type": "integer", "name": "x", "label": "X"}, _sec(k0, "g"), {"type": "calculate", "name": "c", "calculation": "${x} + 1", "trigger": "${q1}"}, {"type": "text", "name": "t", "label": "T"}, _end(k0), _end(True)]
    survey, _w, _js = build_survey({"survey": rows}, prefill=False)
    root = survey.xml()
    sv = [e for e in elements(root, "setvalue") if e.getAttribute("ref") == "/data/r/g/c"]
    if len(sv) != 1:
        return False
    v = sv[0].getAttribute("value")
    return v.endswith(" + 1") and _resolve(["data", "r", "g", "c"], v[:-4]) == ["data", "r", "x"]


for _w, _fid in ((0, "F24"), (1, "F25"), (2, "F26")):
    specialise(
        "C03",
        "f.known-forms",
        c03_known_forms,
        {"which": [_w]},
        timeout=300,
        kernel=K + ("pyxform.question:MultipleChoiceQuestion.build_xml", "pyxform.question:Question.nest_set_nodes"),
        shims=("S1", "S2", "S4"),
        symbolic="group/repeat kind of one section, label tracer",
        bounds="fixed form shape that reproduces known finding " + _fid + " (F24 reference to the enclosing nested repeat, F25 select-from-repeat filter rewritten by str.replace, F26 triggered calculation resolved from the trigger but evaluated from the target)",
        weight=20,
        expect="known",
        reach=False,
        classifier=(lambda fid: (lambda call, replay: fid))(_fid),
    )
specialise(
    "C03",
    "b.uneven-chains",
    c03_cells,
    {"cell": [0], "who": [0], "nc": [1], "nr": [0, 3], "nt": [0, 3]},
    skip_if=lambda fx: fx["nr"] == fx["nt"],
    reach_if=lambda fx: False,
    timeout=600,
    kernel=_KB,
    shims=("S1", "S2", "S4"),
    symbolic="group/repeat kind of every section on the common, referrer and target chains (4 symbolic bits) and a label tracer",
    bounds="relevant cell / label; referrer three sections deeper than the target below the common section, or the reverse (the two ancestor chains differ in length by 3)",
    weight=120,
)
specialise(
    "C03",
    "b.uneven-chains",
    c03_cells,
    {"cell": [5], "who": [0], "nc": [1], "nr": [0, 3], "nt": [0, 3]},
    tiers=("thorough",),
    skip_if=lambda fx: fx["nr"] == fx["nt"],
    reach_if=lambda fx: False,
    timeout=600,
    kernel=_KB,
    shims=("S1", "S2", "S4"),
    symbolic="group/repeat kind of every section on the common, referrer and target chains (4 symbolic bits) and a label tracer",
    bounds="relevant cell / label; referrer three sections deeper than the target below the common section, or the reverse (the two ancestor chains differ in length by 3)",
    weight=120,
)
