"""C05 — logic cells reach the right bind unchanged, with the type the table prescribes."""
from __future__ import annotations

from harness import shims
from harness.common import S, build_survey, child_elements, elements
from vf.registry import ob, specialise

shims.standard()

from spec.tables import LOGIC_COLUMNS, TRUTH_NORMALISED, norm_truth  # noqa: E402

OUTSIDE = "logic values longer than the stated lengths; references inside logic (C03); itext redirect of messages (C07); question types beyond those listed in d"
ASSUMPTIONS = [
    "R0 cell texts over U+0021-U+007E without '$' (no reference syntax; the C lexer is never entered) and without whitespace",
    "S1-S4 shims inside CrossHair; witnesses re-run without them",
]
K = (
    "pyxform.xls2json:workbook_to_json",
    "pyxform.xls2json:clean_text_values",
    "pyxform.parsing.sheet_headers:dealias_and_group_headers",
    "pyxform.parsing.sheet_headers:process_header",
    "pyxform.parsing.sheet_headers:process_row",
    "pyxform.parsing.sheet_headers:merge_dicts",
    "pyxform.builder:create_survey_element_from_dict",
    "pyxform.question:Question.__init__",
    "pyxform.survey_element:SurveyElement.xml_bindings",
    "pyxform.survey:Survey.xml_descendent_bindings",
    "pyxform.survey:Survey.insert_xpaths",
)


def _binds(model):
    return [b for b in child_elements(model) if b.tagName == "bind"]


def _attrs(e):
    return {k: e.getAttribute(k) for k in e.attributes.keys()}


def _model(survey):
    root = survey.xml()
    for e in elements(root, "model"):
        return e
    return None


def c05_two_rows(col: int, alias: int, p1: bool, p2: bool, a0: int, a1: int, b0: int, b1: int) -> bool:
    """
    vpre: 0 <= alias <= 2
    vpre: 33 <= a0 <= 126 and a0 != 36 and 33 <= a1 <= 126 and a1 != 36
    vpre: 33 <= b0 <= 126 and b0 != 36 and 33 <= b1 <= 126 and b1 != 36
    vpost: _ == True
    """
    spellings, attr = LOGIC_COLUMNS[col]
    header = spellings[alias]
    A, B = S(a0, a1), S(b0, b1)
    r1 = {"type": "text", "name": "q1", "label": "L1"}
    r2 = {"type": "integer", "name": "q2", "label": "L2"}
    if p1:
        r1[header] = A
    if p2:
        r2[header] = B
    wb = {"survey": [r1, r2]}
    if not (p1 or p2):
        # header present with no cell filled: supply the header row explicitly
        wb["survey_header"] = [{"type": None, "name": None, "label": None, header: None}]
    survey, _w, _js = build_survey(wb)
    model = _model(survey)
    bs = _binds(model)
    by = {}
    for b in bs:
        ns = b.getAttribute("nodeset")
        if ns in by:
            return False  # a node bound twice
        by[ns] = _attrs(b)
    if sorted(by.keys()) != ["/data/meta/instanceID", "/data/q1", "/data/q2"]:
        return False
    nz = (lambda v: norm_truth(v)) if attr in TRUTH_NORMALISED else (lambda v: v)
    want1 = {"nodeset": "/data/q1", "type": "string"}
    want2 = {"nodeset": "/data/q2", "type": "int"}
    if p1:
        want1[attr] = nz(A)
    if p2:
        want2[attr] = nz(B)
    for got, want in ((by["/data/q1"], want1), (by["/data/q2"], want2)):
        if sorted(got.keys()) != sorted(want.keys()):
            return False
        for k in want:
            if got[k] != want[k]:
                return False
    return True


specialise(
    "C05",
    "a.routing",
    c05_two_rows,
    {"col": list(range(len(LOGIC_COLUMNS)))},
    timeout=240,
    kernel=K,
    shims=("S1", "S2", "S3", "S4"),
    symbolic="header spelling index (3 documented spellings), presence on row 1 / row 2 (booleans), two independent cell values of 2 symbolic characters",
    bounds="two rows (text, integer); value length 2 over U+0021-U+007E minus '$'",
    weight=40,
)


def c05_subsets(p0: bool, p1: bool, p2: bool, p3: bool, p4: bool, p5: bool, c0: int) -> bool:
    """
    vpre: 33 <= c0 <= 126 and c0 != 36
    vpost: _ == True
    """
    ps = (p0, p1, p2, p3, p4, p5)
    row = {"type": "decimal", "name": "q1", "label": "L1"}
    want = {"nodeset": "/data/q1", "type": "decimal"}
    for i in range(6):
        if ps[i]:
            spellings, attr = LOGIC_COLUMNS[i]
            v = S(c0, 48 + i)  # shared symbolic first character, distinct digit suffix per column
            row[spellings[0]] = v
            want[attr] = v  # second char is a digit: never a truth spelling
    survey, _w, _js = build_survey({"survey": [row]})
    model = _model(survey)
    mine = [b for b in _binds(model) if b.getAttribute("nodeset") == "/data/q1"]
    if len(mine) != 1:
        return False
    got = _attrs(mine[0])
    if sorted(got.keys()) != sorted(want.keys()):
        return False
    for k in want:
        if got[k] != want[k]:
            return False
    return len(_binds(model)) == 2


specialise(
    "C05",
    "b.subsets",
    c05_subsets,
    {"p0": [False, True], "p1": [False, True]},
    timeout=400,
    kernel=K,
    shims=("S1", "S2", "S3", "S4"),
    symbolic="presence of each of readonly/constraint/calculation/constraint_message (4 symbolic booleans; relevant/required presence fixed per instance = all 64 subsets); values = one shared symbolic character + a per-column digit",
    bounds="one decimal question; value length 2 over U+0021-U+007E minus '$'",
    weight=150,
)


def c05_yesno(n: int, col: int, c0: int, c1: int, c2: int, c3: int, c4: int) -> bool:
    """
    vpre: 0 <= col <= 4
    vpre: 65 <= c0 <= 122 and 65 <= c1 <= 122 and 65 <= c2 <= 122 and 65 <= c3 <= 122 and 65 <= c4 <= 122
    vpost: _ == True
    """
    v = S(*((c0, c1, c2, c3, c4)[:n]))
    spellings, attr = LOGIC_COLUMNS[col]
    row = {"type": "text", "name": "q1", "label": "L1", spellings[0]: v}
    survey, _w, _js = build_survey({"survey": [row]})
    model = _model(survey)
    mine = [b for b in _binds(model) if b.getAttribute("nodeset") == "/data/q1"]
    if len(mine) != 1:
        return False
    return mine[0].getAttribute(attr) == norm_truth(v)


specialise(
    "C05",
    "c.yesno",
    c05_yesno,
    {"n": [2, 3, 4, 5]},
    timeout=300,
    kernel=K,
    shims=("S1", "S2", "S3", "S4"),
    symbolic="logic column index 0..4 and n symbolic letters (U+0041-U+007A) as the value",
    bounds="value length fixed per instance (2,3,4,5 = lengths of no/yes/true/false spellings)",
    weight=60,
)


# ---- e: parameter-derived bind attributes (audit) -----------------------------------------------
@ob(
    "C05",
    "e.audit-params",
    timeout=500,
    kernel=K,
    shims=("S1", "S2", "S3", "S4"),
    symbolic="presence of track-changes, identify-user, track-changes-reasons and the location triple (4 symbolic booleans), their true/false values (2 booleans), a symbolic min-interval digit, presence of an explicit relevant cell (boolean)",
    bounds="one audit row next to one text question",
    weight=120,
)
def c05_audit(p_tc: bool, p_iu: bool, p_tr: bool, p_loc: bool, v_tc: bool, v_iu: bool, d0: int, p_rel: bool) -> bool:
    """
    pre: 48 <= d0 <= 57
    post: _ == True
    """
    params = []
    want = {"nodeset": "/data/meta/audit", "type": "binary"}
    if p_tc:
        params.append("track-changes=" + ("true" if v_tc else "false"))
        want["odk:track-changes"] = "true" if v_tc else "false"
    if p_iu:
        params.append("identify-user=" + ("true" if v_iu else "false"))
        want["odk:identify-user"] = "true" if v_iu else "false"
    if p_tr:
        params.append("track-changes-reasons=on-form-edit")
        want["odk:track-changes-reasons"] = "on-form-edit"
    if p_loc:
        iv = S(d0)
        params += ["location-priority=balanced", "location-min-interval=" + iv, "location-max-age=" + iv + "0"]
        want["odk:location-priority"] = "balanced"
        want["odk:location-min-interval"] = iv
        want["odk:location-max-age"] = iv + "0"
    row = {"type": "audit", "name": "audit"}
    if params:
        row["parameters"] = " ".join(params)
    if p_rel:
        row["relevant"] = "1=1"
        want["relevant"] = "1=1"
    survey, _w, _js = build_survey({"survey": [{"type": "text", "name": "q1", "label": "L"}, row]})
    model = _model(survey)
    mine = [b for b in _binds(model) if b.getAttribute("nodeset") == "/data/meta/audit"]
    if len(mine) != 1:
        return False
    got = _attrs(mine[0])
    if sorted(got.keys()) != sorted(want.keys()):
        return False
    for k in want:
        if got[k] != want[k]:
            return False
    return True



# ---- f: message columns with a translated sibling, in both column orders -------------------------
def c05_message_order(which: int, plain_first: bool, c0: int) -> bool:
    """
    vpre: 33 <= c0 <= 126 and c0 != 36
    vpost: _ == True
    """
    col, attr = [("constraint_message", "jr:constraintMsg"), ("required_message", "jr:requiredMsg")][which]
    P, T = S(c0, 49), S(c0, 50)
    row = {"type": "text", "name": "q1", "label": "L", "constraint": ". != 1", "required": "yes"}
    cells = [(col, P), (col + "::L1", T)]
    if not plain_first:
        cells.reverse()
    for k, v in cells:
        row[k] = v
    survey, _w, _js = build_survey({"survey": [row]})
    root = survey.xml()
    model = elements(root, "model")[0]
    mine = [b for b in _binds(model) if b.getAttribute("nodeset") == "/data/q1"]
    if len(mine) != 1:
        return False
    ref = "jr:itext('/data/q1:" + attr + "')"
    if mine[0].getAttribute(attr) != ref:
        return False
    # both cells are shown: the translated one in L1, the plain one in the default language
    vals = {}
    for tr in elements(root, "translation"):
        for tx in child_elements(tr):
            if tx.getAttribute("id") == "/data/q1:" + attr:
                vals[tr.getAttribute("lang")] = "".join(c.data for v in child_elements(tx) for c in v.childNodes)
    return vals == {"default": P, "L1": T}


specialise(
    "C05",
    "f.message-order",
    c05_message_order,
    {"which": [0, 1]},
    timeout=300,
    kernel=K,
    shims=("S1", "S2", "S3", "S4"),
    symbolic="column order of the plain and the translated message column (boolean), shared tracer character of both cells",
    bounds="constraint_message / required_message fixed per instance",
    weight=40,
)


# ---- g: parameter-derived bind attributes on several rows ------------------------------------------
@ob(
    "C05",
    "g.param-binds",
    timeout=500,
    kernel=K,
    shims=("S1", "S2", "S3", "S4"),
    symbolic="presence of the parameters cell on each of four rows (image max-pixels twice, audio quality, geopoint allow-mock-accuracy), presence of a relevant cell on the first two (6 symbolic booleans) and two symbolic max-pixels digits",
    bounds="four rows whose bind attributes come from the parameters column; every bind must carry exactly its own row's attributes",
    weight=120,
)
def c05_param_binds(p_a: bool, p_b: bool, p_au: bool, p_geo: bool, r_a: bool, r_b: bool, d0: int, d1: int) -> bool:
    """
    pre: 49 <= d0 <= 57 and 49 <= d1 <= 57
    post: _ == True
    """
    ra = {"type": "image", "name": "pa", "label": "A"}
    rb = {"type": "image", "name": "pb", "label": "B"}
    rau = {"type": "audio", "name": "au", "label": "U"}
    rg = {"type": "geopoint", "name": "gp", "label": "G"}
    want = {
        "/data/pa": {"nodeset": "/data/pa", "type": "binary"},
        "/data/pb": {"nodeset": "/data/pb", "type": "binary"},
        "/data/au": {"nodeset": "/data/au", "type": "binary"},
        "/data/gp": {"nodeset": "/data/gp", "type": "geopoint"},
    }
    if p_a:
        ra["parameters"] = "max-pixels=" + S(d0) + "00"
        want["/data/pa"]["orx:max-pixels"] = S(d0) + "00"
    if p_b:
        rb["parameters"] = "max-pixels=" + S(d1) + "0"
        want["/data/pb"]["orx:max-pixels"] = S(d1) + "0"
    if p_au:
        rau["parameters"] = "quality=low"
        want["/data/au"]["odk:quality"] = "low"
    if p_geo:
        rg["parameters"] = "allow-mock-accuracy=true"
        want["/data/gp"]["odk:allow-mock-accuracy"] = "true"
    if r_a:
        ra["relevant"] = "1=1"
        want["/data/pa"]["relevant"] = "1=1"
    if r_b:
        rb["relevant"] = "2=2"
        want["/data/pb"]["relevant"] = "2=2"
    survey, _w, _js = build_survey({"survey": [ra, rb, rau, rg], "survey_header": [{"type": None, "name": None, "label": None, "parameters": None, "relevant": None}]})
    model = _model(survey)
    seen = []
    for b in _binds(model):
        ns = b.getAttribute("nodeset")
        if ns in seen:
            return False
        seen.append(ns)
        if ns in want:
            got = _attrs(b)
            if sorted(got.keys()) != sorted(want[ns].keys()):
                return False
            for k in want[ns]:
                if got[k] != want[ns][k]:
                    return False
    return len(seen) == 5


# ---- h: a triggered calculation keeps every other bind attribute -------------------------------------
@ob(
    "C05",
    "h.trigger-binds",
    timeout=400,
    kernel=K + ("pyxform.question:Question.nest_set_nodes",),
    shims=("S1", "S2", "S4"),
    symbolic="presence of relevant / required / readonly / constraint cells on a calculate row that has a trigger (4 symbolic booleans), the calculation column placed before or after them (boolean), a tracer character on another row",
    bounds="one text question + one triggered calculate; the cell holding the reference is concrete (C lexer)",
    weight=60,
)
def c05_trigger_binds(p_rel: bool, p_req: bool, p_ro: bool, p_con: bool, calc_first: bool, c0: int) -> bool:
    """
    pre: 33 <= c0 <= 126 and c0 != 36
    post: _ == True
    """
    row = {"type": "calculate", "name": "c1", "trigger": "${q1}"}
    want = {"nodeset": "/data/c1", "type": "string"}
    if calc_first:
        row["calculation"] = "1+1"
    if p_rel:
        row["relevant"] = "1=1"
        want["relevant"] = "1=1"
    if p_req:
        row["required"] = "yes"
        want["required"] = "true()"
    if p_ro:
        row["read_only"] = "yes"
        want["readonly"] = "true()"
    if p_con:
        row["constraint"] = ".>0"
        want["constraint"] = ".>0"
    if not calc_first:
        row["calculation"] = "1+1"
    survey, _w, _js = build_survey({"survey": [{"type": "text", "name": "q1", "label": S(c0, 66)}, row]})
    root = survey.xml()
    model = elements(root, "model")[0]
    mine = [b for b in _binds(model) if b.getAttribute("nodeset") == "/data/c1"]
    if len(mine) != 1:
        return False
    got = _attrs(mine[0])
    if sorted(got.keys()) != sorted(want.keys()):
        return False
    for k in want:
        if got[k] != want[k]:
            return False
    svs = [e for e in elements(root, "setvalue") if e.getAttribute("ref") == "/data/c1"]
    return len(svs) == 1 and svs[0].getAttribute("value") == "1+1" and svs[0].getAttribute("event") == "xforms-value-changed"


# ---- i: logic attached through the element API stays on its own row (round 3) ------------------------------
def c05_api_isolation(t: int, col: int, c0: int, c1: int) -> bool:
    """
    vpre: 0 <= t <= 3 and 0 <= col <= 3
    vpre: 97 <= c0 <= 122 and 97 <= c1 <= 122
    vpost: _ == True
    """
    from pyxform.builder import create_survey_element_from_dict

    V = S(c0, c1)
    typ = ["integer", "text", "decimal", "date"][t]
    key = ["constraint", "relevant", "required", "jr:constraintMsg"][col]
    js = {"type": "survey", "name": "data", "title": "x", "id_string": "x", "children": [{"type": typ, "name": "q1", "label": "A"}, {"type": typ, "name": "q2", "label": "B"}]}
    s1 = create_survey_element_from_dict(js)
    q1 = s1.children[0]
    if q1.bind is None:
        return False
    q1.bind[key] = V  # Survey-API code attaching logic to one question it built
    root1 = s1.xml()
    # a second, unrelated form converted afterwards in the same process
    s2, _w, _js = build_survey({"survey": [{"type": typ, "name": "q3", "label": "C"}, {"type": "text", "name": "q4", "label": "D"}]})
    root2 = s2.xml()
    bt = {"integer": "int", "text": "string", "decimal": "decimal", "date": "date"}[typ]

    def attrs(root, path):
        b = [x for x in elements(root, "bind") if x.getAttribute("nodeset") == path]
        if len(b) != 1:
            return None
        return {k: b[0].getAttribute(k) for k in b[0].attributes.keys()}

    from spec.tables import norm_truth

    # yes/no spellings of logic values are normalised to true()/false() (documented; C05.c)
    want1 = {"nodeset": "/data/q1", "type": bt, key: V if key == "jr:constraintMsg" else norm_truth(V)}
    return attrs(root1, "/data/q1") == want1 and attrs(root1, "/data/q2") == {"nodeset": "/data/q2", "type": bt} and attrs(root2, "/data/q3") == {"nodeset": "/data/q3", "type": bt} and attrs(root2, "/data/q4") == {"nodeset": "/data/q4", "type": "string"}


specialise(
    "C05",
    "i.api-isolation",
    c05_api_isolation,
    {"t": [0, 1, 2, 3]},
    timeout=300,
    kernel=("pyxform.question:Question.__init__", "pyxform.builder:SurveyElementBuilder._create_question_from_dict", "pyxform.survey_element:SurveyElement.xml_bindings"),
    shims=("S1", "S2", "S3", "S4"),
    symbolic="which logic attribute is attached (symbolic index over constraint, relevant, required, jr:constraintMsg), its 2-letter value",
    bounds="question type fixed per instance; two questions of that type built through the builder API, logic attached to the first through its bind dict, then a second form converted in the same process: the attribute appears on that one bind only",
    weight=30,
)
