"""C17 — broken forms are rejected with a located diagnosis; nothing ever crashes."""
from __future__ import annotations

from harness import shims
from harness import seqmodel as M
from harness.common import S, build_survey
from vf.registry import ob, specialise

shims.standard()

from pyxform.errors import PyXFormError  # noqa: E402

OUTSIDE = "inputs outside the stated vocabulary; more than 4 rows; the lexer-based ${...} syntax check (C lexer) is exercised only with concrete malformed references"
ASSUMPTIONS = [
    "the error catalogue (mutation -> subject text and whether the error belongs to a row) is written from the property statement and the XLSForm documentation",
    "dict workbooks: blank rows are empty dicts and count towards spreadsheet row numbers (header = row 1)",
    "S1-S4 shims inside CrossHair; witnesses re-run without them",
]
K = (
    "pyxform.xls2json:workbook_to_json",
    "pyxform.parsing.sheet_headers:dealias_and_group_headers",
    "pyxform.validators.pyxform.choices:validate_and_clean_choices",
    "pyxform.validators.pyxform.parameters_generic:parse",
    "pyxform.validators.pyxform.parameters_generic:validate",
    "pyxform.validators.pyxform.question_types:validate_references",
    "pyxform.builder:create_survey_element_from_dict",
    "pyxform.section:Section.validate",
    "pyxform.survey:Survey.xml",
    "pyxform.survey:Survey._var_repl_function",
)

BASE = [
    {"type": "text", "name": "n0", "label": "L0"},
    {"type": "begin group", "name": "n1", "label": "L1"},
    {"type": "integer", "name": "n2", "label": "L2"},
    {"type": "end group"},
    {"type": "select_one l1", "name": "n4", "label": "L4"},
]
QUESTION_SITES = [0, 2, 4]  # indices of question rows in BASE

# mutation id -> (description, row-cited?)
CATALOGUE = {
    0: ("extra 'end group' row inserted", True),
    1: ("'end group' row removed (unclosed begin)", False),
    2: ("'end group' replaced by 'end repeat' (mismatched)", True),
    3: ("question renamed to a sibling's name (duplicate)", False),
    4: ("question name made invalid (symbolic bad characters)", True),
    5: ("relevant refers to an unknown ${name}", False),
    6: ("unknown question type (symbolic letters)", False),
    7: ("select_one names a list that does not exist", True),
    8: ("calculate without calculation", True),
    9: ("unknown parameter key on a text question", False),
    10: ("name cell removed", True),
    11: ("type cell removed (name and label present)", True),
    12: ("choice row without name", True),
    13: ("duplicate choice name without allow_choice_duplicates", True),
    14: ("both 'relevant' and 'relevance' headers (duplicate alias)", False),
    15: ("'type' header missing from the survey sheet", False),
    16: ("or_other combined with choice_filter", True),
    17: ("audit row with a name other than 'audit'", True),
    18: ("same xml-external instance name twice", False),
    19: ("select_multiple over a list whose choice name contains a space", False),
    20: ("trigger refers to a question that does not exist (background-geopoint)", True),
    21: ("range with a non-numeric parameter", False),
    22: ("parameters cell without '='", False),
    23: ("malformed reference '${n0' in a label", True),
    24: ("reference to a name carried by 2-5 questions in different groups (ambiguous)", False),
    25: ("save_to on a question in a group nested inside a repeat", True),
    26: ("duplicate choice name where one or both rows have media but no label", True),
    27: ("value=/label= parameters on a choices-sheet select, alone / before / after a select-from-file row", False),
    28: ("two select-from-file rows whose files share a stem but differ in extension (same instance id, different source)", False),
}


def mutate(m: int, site: int, blanks: int, x: str):
    """-> (workbook dict, expected row number or None, subject text that must be named or None)"""
    rows = [dict(r) for r in BASE]
    choices = [dict(c) for c in M.CHOICES]
    wb = {}
    row = None
    subject = None
    qi = QUESTION_SITES[site % 3]
    if m == 0:
        pos = site % 6  # insertion index 0..5
        rows.insert(pos, {"type": "end group"})
        # an extra end is unmatched where the stack is empty, or it closes n1 early and the
        # original end becomes unmatched
        row = pos if pos not in (2, 3) else 4
    elif m == 1:
        del rows[3]
    elif m == 2:
        rows[3] = {"type": "end repeat"}
        row = 3
    elif m == 3:
        rows.insert(1, {"type": "text", "name": "n0" if site % 2 == 0 else "N0", "label": "dup"})
        subject = "n0"
    elif m == 4:
        rows[qi]["name"] = x
        row = qi
        subject = x
    elif m == 5:
        rows[qi]["relevant"] = "${" + x + "} = 1"
        subject = x
    elif m == 6:
        rows[qi]["type"] = x
        subject = x
    elif m == 7:
        rows[qi]["type"] = "select_one " + x
        row = qi
        subject = x
    elif m == 8:
        rows[qi] = {"type": "calculate", "name": rows[qi]["name"]}
        row = qi
    elif m == 9:
        rows[0]["parameters"] = x + "=1"
        subject = x
    elif m == 10:
        del rows[qi]["name"]
        row = qi
    elif m == 11:
        del rows[qi]["type"]
        row = qi
    elif m == 12:
        ci = site % 2
        del choices[ci]["name"]
        row = ("choices", ci)
    elif m == 13:
        choices[1]["name"] = "a"
        row = ("choices", 1)
    elif m == 14:
        rows[0]["relevant"] = "1"
        rows[2]["relevance"] = "1"
        subject = "relevan"
    elif m == 15:
        for r in rows:
            if "type" in r:
                r["kind"] = r.pop("type")
        subject = "type"
    elif m == 16:
        rows[4]["type"] = "select_one l1 or_other"
        rows[4]["choice_filter"] = "1"
        row = 4
    elif m == 17:
        rows.insert(qi, {"type": "audit", "name": x})
        row = qi
    elif m == 18:
        rows.insert(0, {"type": "xml-external", "name": "ext"})
        rows.append({"type": "xml-external", "name": "ext"})
        subject = "ext"
    elif m == 19:
        choices[0]["name"] = "a b"
        rows[4]["type"] = "select_multiple l1"
        subject = "a b"
    elif m == 20:
        rows.insert(qi, {"type": "background-geopoint", "name": "bg", "trigger": "${" + x + "}"})
        row = qi
    elif m == 21:
        rows[qi] = {"type": "range", "name": "rg", "label": "R", "parameters": "start=" + x}
    elif m == 22:
        rows[0]["parameters"] = x
    elif m == 23:
        rows[qi]["label"] = "${n0"
        row = qi
    elif m == 24:
        k = 2 + site % 4
        for i in range(k):
            rows += [{"type": "begin group", "name": f"gg{i}", "label": "G"}, {"type": "text", "name": "dup", "label": "D"}, {"type": "end group"}]
        rows.append({"type": "text", "name": "ref", "label": "R", "relevant": "${dup} = 1"})
        subject = "dup"
    elif m == 25:
        depth = 1 + site % 2
        new = [{"type": "begin repeat", "name": "rr", "label": "R"}]
        for i in range(depth):
            new.append({"type": "begin group", "name": f"gg{i}", "label": "G"})
        new.append({"type": "text", "name": "sv", "label": "S", "save_to": x})
        for i in range(depth):
            new.append({"type": "end group"})
        new.append({"type": "end repeat"})
        rows += new
        wb["entities"] = [{"dataset": "ds", "label": "a"}]
        row = len(rows) - 2 - depth
    elif m == 26:
        choices[1]["name"] = "a"
        for ci in ((0,), (1,), (0, 1))[site % 3]:
            del choices[ci]["label"]
            choices[ci]["image"] = "p.png"
        row = ("choices", 1)
    elif m == 27:
        ff = {"type": "select_one_from_file f.csv", "name": "ff", "label": "F", "parameters": "value=a label=b"}
        rows[4]["parameters"] = "value=" + x
        if site % 3 == 1:
            rows.append(ff)
        elif site % 3 == 2:
            rows.insert(0, ff)
    elif m == 28:
        exts = [("csv", "xml"), ("xml", "csv"), ("csv", "geojson"), ("geojson", "xml")][site % 4]
        kinds = ["select_one_from_file", "select_multiple_from_file"]
        rows.append({"type": kinds[site % 2] + " " + x + "." + exts[0], "name": "f1", "label": "F1"})
        rows.append({"type": kinds[(site // 2) % 2] + " " + x + "." + exts[1], "name": "f2", "label": "F2"})
        subject = x
    rows = [{} for _ in range(blanks)] + rows
    wb["survey"] = rows
    wb["choices"] = choices
    if isinstance(row, tuple):
        rownum = row[1] + 2
    elif row is not None:
        rownum = row + blanks + 2
    else:
        rownum = None
    return wb, rownum, subject


def cat_ok(m: int, site: int, blanks: int, x: str):
    wb, rownum, subject = mutate(m, site, blanks, x)
    try:
        survey, _w, _js = build_survey(wb)
        survey.validate()  # Survey.to_xml validates before it serialises
        survey.xml()
    except PyXFormError as e:
        msg = str(e)
        if rownum is not None and ("[row : " + str(rownum) + "]") not in msg:
            return "row not cited: want " + str(rownum) + " got " + msg[:80]
        if subject is not None and subject not in msg:
            return "subject not named: " + msg[:80]
        return True
    return "accepted"


def _valid_name_ascii(x: str) -> bool:
    from harness.C19 import is_ncname_or_qname_ascii

    return is_ncname_or_qname_ascii(x)


def c17_cat_sym(m: int, site: int, blanks: int, l0: int) -> bool:
    """
    vpre: 0 <= site <= 5 and 0 <= blanks <= 2
    vpre: 97 <= l0 <= 122
    vpost: _ == True
    """
    # The offending text is concrete: it reaches regexes with large alternations, dict keys and (for
    # references) the C lexer.  Site and blank-row offset are symbolic; a tracer letter rides on a label.
    BASE[0]["label"] = "L" + S(l0)
    try:
        return cat_ok(m, site, blanks, "zqab")
    finally:
        BASE[0]["label"] = "L0"


specialise(
    "C17",
    "a.catalogue",
    c17_cat_sym,
    {"m": [0, 1, 2, 3, 5, 6, 7, 8, 9, 10, 11, 12, 13, 14, 15, 16, 17, 18, 19, 20, 21, 22, 24, 25, 26, 27, 28]},
    timeout=300,
    kernel=K,
    shims=("S1", "S2", "S3", "S4"),
    symbolic="mutation site (0..5), number of blank rows above (0..2), a symbolic label letter; the offending text itself is concrete ('zqab')",
    bounds="5-row base form (text, group with integer, select_one) + 2 choices; one catalogued mutation per instance",
    weight=60,
)


def c17_badname(site: int, blanks: int, x0: int) -> bool:
    """
    pre: 0 <= site <= 2 and 0 <= blanks <= 2
    pre: 37 <= x0 <= 44
    post: _ == True
    """
    return cat_ok(4, site, blanks, S(x0) + "q")


ob(
    "C17",
    "a.catalogue[m4-invalid-name]",
    timeout=400,
    kernel=K,
    shims=("S1", "S2", "S3", "S4"),
    symbolic="question name = one symbolic punctuation character (U+0025-U+002C) + 'q'; site and blank rows symbolic",
    bounds="invalid first character over % & ' ( ) * + ,",
    weight=80,
)(c17_badname)


@ob(
    "C17",
    "a.catalogue[m23-malformed-ref]",
    timeout=200,
    kernel=K + ("pyxform.validators.pyxform.pyxform_reference:validate_pyxform_reference_syntax",),
    shims=("S1", "S2", "S3", "S4"),
    symbolic="site (0..2) and blank rows above (0..2); the malformed reference text is concrete (C lexer)",
    bounds="label '${n0' on one of three question rows",
    weight=30,
)
def c17_malformed(site: int, blanks: int) -> bool:
    """
    pre: 0 <= site <= 2 and 0 <= blanks <= 2
    post: _ == True
    """
    return cat_ok(23, site, blanks, "")


# ---- c: totality over the row vocabulary ------------------------------------------------
TVOC = [M.TEXT, M.CALC, M.BGROUP, M.EGROUP, M.BREPEAT, M.EREPEAT, M.SELECT_OTHER, M.BREPEAT_COUNT, M.DYN_DEFAULT, M.TRIGGERED, M.BGROUP_TABLE, M.SELECT_MULTI, M.BLANK, M.COMMENT, M.DISABLED, M.BREPEAT_REFCOUNT]


def c17_total3(k0: int, k1: int, i2: int, l0: int) -> bool:
    """
    vpre: 0 <= i2 <= 15
    vpre: 33 <= l0 <= 126 and l0 != 36
    vraises: PyXFormError
    vpost: _ == True
    """
    kinds = [k0, k1, TVOC[i2]]
    wb = {"survey": M.rows_ext(kinds, S(l0, 66)), "choices": M.CHOICES, "survey_header": [dict(M.EXT_HEADER)]}
    survey, _w, _js = build_survey(wb)
    survey.xml()
    return True


TVOCQ = [M.TEXT, M.BGROUP, M.EGROUP, M.BREPEAT, M.EREPEAT, M.SELECT_MULTI, M.TRIGGERED, M.BREPEAT_REFCOUNT]
specialise(
    "C17",
    "c.totality-rows",
    c17_total3,
    {"k0": TVOCQ, "k1": TVOCQ},
    reach_if=lambda fx: fx["k0"] == M.TEXT and fx["k1"] == M.TEXT,
    timeout=300,
    kernel=K,
    shims=("S1", "S2", "S3", "S4"),
    symbolic="third row kind over the 16-kind vocabulary (incl. empty sections, or_other, repeat counts, trigger, table-list, blank/comment/disabled rows) and a label with one symbolic character",
    bounds="3 rows, first two kinds fixed per instance over an 8-kind subset (quick): 8 x 8 x 16 sequences; the only admissible exception is PyXFormError",
    weight=40,
)
specialise(
    "C17",
    "c.totality-rows-full",
    c17_total3,
    {"k0": TVOC, "k1": TVOC},
    reach_if=lambda fx: False,
    tiers=("thorough",),
    timeout=400,
    kernel=K,
    shims=("S1", "S2", "S3", "S4"),
    symbolic="third row kind over the 16-kind vocabulary and a label with one symbolic character",
    bounds="3 rows: all 16^3 sequences; the only admissible exception is PyXFormError",
    weight=50,
)


# ---- b: totality of validator units on symbolic strings -----------------------------------


def c17_params(n: int, c0: int, c1: int, c2: int, c3: int) -> bool:
    """
    vpre: 32 <= c0 <= 126 and 32 <= c1 <= 126 and 32 <= c2 <= 126 and 32 <= c3 <= 126
    vraises: PyXFormError
    vpost: _ == True
    """
    from pyxform.validators.pyxform import parameters_generic as pg

    raw = S(*((c0, c1, c2, c3)[:n]))
    p = pg.parse(raw_parameters=raw)
    pg.validate(parameters=p, allowed=("rows",))
    return True


specialise(
    "C17",
    "b.units.parameters",
    c17_params,
    {"n": [1, 2]},
    timeout=300,
    kernel=("pyxform.validators.pyxform.parameters_generic:parse", "pyxform.validators.pyxform.parameters_generic:validate"),
    shims=(),
    symbolic="parameters cell of n symbolic printable characters (U+0020-U+007E)",
    bounds="n in 1..2 (quick), 3-4 (thorough)",
    weight=40,
)
specialise(
    "C17",
    "b.units.parameters",
    c17_params,
    {"n": [3, 4]},
    tiers=("thorough",),
    timeout=2400,
    kernel=("pyxform.validators.pyxform.parameters_generic:parse", "pyxform.validators.pyxform.parameters_generic:validate"),
    shims=(),
    symbolic="parameters cell of n symbolic printable characters",
    bounds="n in 3..4",
    weight=900,
)


def c17_android(n: int, c0: int, c1: int, c2: int, c3: int) -> bool:
    """
    vpre: 32 <= c0 <= 126 and 32 <= c1 <= 126 and 32 <= c2 <= 126 and 32 <= c3 <= 126
    vpost: _ == True
    """
    from pyxform.validators.pyxform.android_package_name import validate_android_package_name as v

    name = S(*((c0, c1, c2, c3)[:n]))
    r = v(name)
    # reference rule (Android application id): >= 2 non-empty segments of [A-Za-z][A-Za-z0-9_]*
    segs = name.split(".")
    ok = len(segs) >= 2
    for s in segs:
        if len(s) == 0:
            ok = False
        else:
            c = s[0]
            if not (("a" <= c <= "z") or ("A" <= c <= "Z")):
                ok = False
            for c in s:
                if not (("a" <= c <= "z") or ("A" <= c <= "Z") or ("0" <= c <= "9") or c == "_"):
                    ok = False
    return (r is None) == ok


specialise(
    "C17",
    "b.units.android-package",
    c17_android,
    {"n": [1, 2]},
    timeout=300,
    kernel=("pyxform.validators.pyxform.android_package_name:validate_android_package_name",),
    shims=(),
    symbolic="package name of n symbolic printable characters",
    bounds="n in 1..4; accepted iff the reference Android application-id rule accepts",
    weight=40,
)
specialise(
    "C17",
    "b.units.android-package",
    c17_android,
    {"n": [3]},
    tiers=("thorough",),
    reach_if=lambda fx: False,
    timeout=900,
    kernel=("pyxform.validators.pyxform.android_package_name:validate_android_package_name",),
    shims=(),
    symbolic="package name of n symbolic printable characters",
    bounds="n in 1..4; accepted iff the reference Android application-id rule accepts",
    weight=300,
)
