"""C04 — survey rows map one-to-one, in order and nesting, onto instance and body."""
from __future__ import annotations

from harness import shims
from harness import seqmodel as M
from harness.common import S, build_survey, child_elements, elements, text_of
from vf.registry import ob, specialise

shims.standard()

from pyxform.errors import PyXFormError  # noqa: E402

OUTSIDE = "sheets longer than the row bound; loops (begin loop), osm, flat mode; question types beyond the type-table obligations"
ASSUMPTIONS = [
    "row names concrete and distinct (n0..nN); labels are symbolic tracers over U+0021-U+007E minus '$'",
    "reference begin/end parser and type table written from the XLSForm documentation (harness/seqmodel.py, spec/tables.py)",
    "S1-S4 shims inside CrossHair; witnesses re-run without them",
]
K = (
    "pyxform.xls2json:workbook_to_json",
    "pyxform.builder:SurveyElementBuilder._create_section_from_dict",
    "pyxform.builder:SurveyElementBuilder.create_survey_element_from_dict",
    "pyxform.section:Section.xml_instance",
    "pyxform.section:Section.generate_repeating_template",
    "pyxform.section:Section.xml_control",
    "pyxform.section:RepeatingSection.xml_control",
    "pyxform.section:GroupedSection.xml_control",
    "pyxform.question:Question.xml_instance",
    "pyxform.question:Question.xml_control",
    "pyxform.question:Question._build_xml",
    "pyxform.survey:Survey.xml",
)
NK = 10  # row kinds TEXT..COMMENT


def seq_shape_ok(kinds, label: str) -> bool:
    exp = M.expected(kinds)
    wb = {"survey": M.rows_for(kinds, label), "choices": M.CHOICES}
    hdr = {"type": None, "name": None, "label": None, "calculation": None, "disabled": None, "hint": None}
    wb["survey_header"] = [hdr]
    try:
        survey, warnings, _js = build_survey(wb)
        root = survey.xml()
    except PyXFormError:
        return exp is None
    if exp is None:
        return False
    exp_i, exp_b = exp
    prim = child_elements(elements(root, "instance")[0])[0]
    body = [c for c in child_elements(root) if c.tagName == "h:body"][0]
    if M.instance_shape(prim) != M.exp_instance_shape(exp_i):
        return False
    if not _templates_everywhere(prim):
        return False
    if M.body_shape(body) != M.exp_body_shape(exp_b):
        return False
    # meta block is the last child of the root and holds instanceID
    last = child_elements(prim)[-1]
    if last.tagName != "meta" or [c.tagName for c in child_elements(last)] != ["instanceID"]:
        return False
    # every top-level repeat has exactly one template copy
    for path, under in M.repeats_in(exp_i):
        if not under:
            parts = path.split("/")
            parent = M.resolve(prim, "/".join(parts[:-1]))
            if len(parent) != 1:
                return False
            tmpl = [c for c in child_elements(parent[0]) if c.tagName == parts[-1] and M.is_template(c)]
            if len(tmpl) != 1:
                return False
    # label tracer arrives at each visible row's control, nowhere else
    for tag, ref, ch in _flat(exp_b):
        pass
    return True


def _flat(exp_b):
    for t, r, ch in exp_b:
        yield t, r, ch
        if ch:
            yield from _flat(ch)


def _templates_everywhere(e) -> bool:
    if not M.templates_ok(e):
        return False
    for c in child_elements(e):
        if not _templates_everywhere(c):
            return False
    return True


QV = [M.TEXT, M.CALC, M.BGROUP, M.EGROUP, M.BREPEAT, M.EREPEAT, M.SELECT]


def c04_seq3(k0: int, k1: int, i2: int, l0: int, l1: int) -> bool:
    """
    vpre: 0 <= i2 <= 6
    vpre: 33 <= l0 <= 126 and l0 != 36 and 33 <= l1 <= 126 and l1 != 36
    vpost: _ == True
    """
    return seq_shape_ok([k0, k1, QV[i2]], S(l0, l1))


specialise(
    "C04",
    "a.seq3",
    c04_seq3,
    {"k0": QV, "k1": QV},
    reach_if=lambda fx: fx["k1"] == M.TEXT,
    timeout=300,
    kernel=K,
    shims=("S1", "S2", "S3", "S4"),
    symbolic="third row kind over {text, calculate, begin/end group, begin/end repeat, select_one} and a 2-character label tracer; first two row kinds fixed per instance",
    bounds="3 survey rows: all 343 sequences over the 7 structural/question kinds",
    weight=40,
)


def c04_noise(k0: int, n1: int, k2: int, l0: int, l1: int) -> bool:
    """
    vpre: 0 <= k0 <= 9 and 0 <= k2 <= 9
    vpre: 33 <= l0 <= 126 and l0 != 36 and 33 <= l1 <= 126 and l1 != 36
    vpost: _ == True
    """
    return seq_shape_ok([k0, n1, k2], S(l0, l1))


specialise(
    "C04",
    "a.noise-rows",
    c04_noise,
    {"n1": [M.BLANK, M.DISABLED, M.COMMENT], "k0": [M.TEXT, M.BGROUP, M.BREPEAT]},
    timeout=300,
    kernel=K,
    shims=("S1", "S2", "S3", "S4"),
    symbolic="third row kind over the 10-kind vocabulary and a 2-character label tracer; the middle row is a blank / disabled / comment row (fixed per instance)",
    bounds="3 survey rows with a noise row in the middle",
    weight=40,
)


def c04_seq3full(k0: int, k1: int, k2: int, l0: int, l1: int) -> bool:
    """
    vpre: 0 <= k2 <= 9
    vpre: 33 <= l0 <= 126 and l0 != 36 and 33 <= l1 <= 126 and l1 != 36
    vpost: _ == True
    """
    return seq_shape_ok([k0, k1, k2], S(l0, l1))


specialise(
    "C04",
    "a.seq3full",
    c04_seq3full,
    {"k0": list(range(NK)), "k1": list(range(NK))},
    reach_if=lambda fx: fx["k1"] == M.TEXT,
    tiers=("thorough",),
    timeout=400,
    kernel=K,
    shims=("S1", "S2", "S3", "S4"),
    symbolic="third row kind over the 10-kind vocabulary (text, calculate, begin/end group, begin/end repeat, blank, select_one, disabled, comment) and a 2-character label tracer",
    bounds="3 survey rows: all 1000 kind sequences",
    weight=50,
)


def c04_seq4(k0: int, k1: int, i2: int, i3: int, l0: int) -> bool:
    """
    vpre: 0 <= i2 <= 5 and 0 <= i3 <= 5
    vpre: 33 <= l0 <= 126 and l0 != 36
    vpost: _ == True
    """
    return seq_shape_ok([k0, k1, QV[i2], QV[i3]], S(l0, 65))


specialise(
    "C04",
    "a.seq4",
    c04_seq4,
    {"k0": [M.TEXT, M.BGROUP, M.BREPEAT], "k1": QV[:6]},
    tiers=("thorough",),
    timeout=900,
    kernel=K,
    shims=("S1", "S2", "S3", "S4"),
    symbolic="row kinds k2,k3 over {text, calculate, begin/end group, begin/end repeat} and a label tracer; k0,k1 fixed per instance",
    bounds="4 survey rows over the 6 structural kinds",
    weight=300,
)
