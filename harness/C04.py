"""C04 — survey rows map one-to-one, in order and nesting, onto instance and body."""
from __future__ import annotations

from harness import shims
from harness import seqmodel as M
from harness.common import S, build_survey, child_elements, elements, text_of
from vf.registry import ob, specialise

shims.standard()

from pyxform.errors import PyXFormError  # noqa: E402

OUTSIDE = "sheets longer than the row bound; loops (begin loop), osm, flat mode; question types beyond the type-table obligations"
ASSUMPTIONS = [
    "row names concrete and distinct (n0..nN); labels are symbolic tracers over U+0021-U+007E minus '$'",
    "reference begin/end parser and type table written from the XLSForm documentation (harness/seqmodel.py, spec/tables.py)",
    "S1-S4 shims inside CrossHair; witnesses re-run without them",
]
K = (
    "pyxform.xls2json:workbook_to_json",
    "pyxform.builder:SurveyElementBuilder._create_section_from_dict",
    "pyxform.builder:SurveyElementBuilder.create_survey_element_from_dict",
    "pyxform.section:Section.xml_instance",
    "pyxform.section:Section.generate_repeating_template",
    "pyxform.section:Section.xml_control",
    "pyxform.section:RepeatingSection.xml_control",
    "pyxform.section:GroupedSection.xml_control",
    "pyxform.question:Question.xml_instance",
    "pyxform.question:Question.xml_control",
    "pyxform.question:Question._build_xml",
    "pyxform.survey:Survey.xml",
)
NK = 10  # row kinds TEXT..COMMENT


def seq_shape_ok(kinds, label: str, disabled: str = "yes", exp_kinds=None) -> bool:
    exp = M.expected(kinds if exp_kinds is None else exp_kinds)
    wb = {"survey": M.rows_for(kinds, label, disabled), "choices": M.CHOICES}
    hdr = {"type": None, "name": None, "label": None, "calculation": None, "disabled": None, "hint": None}
    wb["survey_header"] = [hdr]
    try:
        survey, warnings, _js = build_survey(wb)
        root = survey.xml()
    except PyXFormError:
        return exp is None
    if exp is None:
        return False
    exp_i, exp_b = exp
    prim = child_elements(elements(root, "instance")[0])[0]
    body = [c for c in child_elements(root) if c.tagName == "h:body"][0]
    if M.instance_shape(prim) != M.exp_instance_shape(exp_i):
        return False
    if not _templates_everywhere(prim):
        return False
    if M.body_shape(body) != M.exp_body_shape(exp_b):
        return False
    # meta block is the last child of the root and holds instanceID
    last = child_elements(prim)[-1]
    if last.tagName != "meta" or [c.tagName for c in child_elements(last)] != ["instanceID"]:
        return False
    # every top-level repeat has exactly one template copy
    for path, under in M.repeats_in(exp_i):
        if not under:
            parts = path.split("/")
            parent = M.resolve(prim, "/".join(parts[:-1]))
            if len(parent) != 1:
                return False
            tmpl = [c for c in child_elements(parent[0]) if c.tagName == parts[-1] and M.is_template(c)]
            if len(tmpl) != 1:
                return False
    # label tracer arrives at each visible row's control, nowhere else
    for tag, ref, ch in _flat(exp_b):
        pass
    return True


def _flat(exp_b):
    for t, r, ch in exp_b:
        yield t, r, ch
        if ch:
            yield from _flat(ch)


def _templates_everywhere(e) -> bool:
    if not M.templates_ok(e):
        return False
    for c in child_elements(e):
        if not _templates_everywhere(c):
            return False
    return True


QV = [M.TEXT, M.CALC, M.BGROUP, M.EGROUP, M.BREPEAT, M.EREPEAT, M.SELECT]


def c04_seq3(k0: int, k1: int, i2: int, l0: int) -> bool:
    """
    vpre: 0 <= i2 <= 6
    vpre: 33 <= l0 <= 126 and l0 != 36
    vpost: _ == True
    """
    return seq_shape_ok([k0, k1, QV[i2]], S(l0, 66))


specialise(
    "C04",
    "a.seq3",
    c04_seq3,
    {"k0": QV, "k1": QV},
    reach_if=lambda fx: fx["k1"] == M.TEXT,
    timeout=300,
    kernel=K,
    shims=("S1", "S2", "S3", "S4"),
    symbolic="third row kind over {text, calculate, begin/end group, begin/end repeat, select_one} and a label tracer with one symbolic character; first two row kinds fixed per instance",
    bounds="3 survey rows: all 343 sequences over the 7 structural/question kinds",
    weight=40,
)


def c04_noise(k0: int, n1: int, k2: int, l0: int) -> bool:
    """
    vpre: 0 <= k0 <= 9 and 0 <= k2 <= 9
    vpre: 33 <= l0 <= 126 and l0 != 36
    vpost: _ == True
    """
    return seq_shape_ok([k0, n1, k2], S(l0, 66))


specialise(
    "C04",
    "a.noise-rows",
    c04_noise,
    {"n1": [M.BLANK, M.DISABLED, M.COMMENT], "k0": [M.TEXT, M.BGROUP, M.BREPEAT]},
    timeout=300,
    kernel=K,
    shims=("S1", "S2", "S3", "S4"),
    symbolic="third row kind over the 10-kind vocabulary and a label tracer with one symbolic character; the middle row is a blank / disabled / comment row (fixed per instance)",
    bounds="3 survey rows with a noise row in the middle",
    weight=40,
)


# "marked disabled": the documented truth spellings plus the XPath boolean literals
DISABLED_SPELLINGS = ["yes", "Yes", "YES", "true", "True", "TRUE", "true()", "no", "No", "NO", "false", "False", "FALSE", "false()"]


def c04_disabled(k0: int, k2: int, sp: int, l0: int) -> bool:
    """
    vpre: 0 <= sp <= 13
    vpre: 33 <= l0 <= 126 and l0 != 36
    vpost: _ == True
    """
    kinds = [k0, M.DISABLED, k2]
    exp_kinds = [k0, M.DISABLED if sp < 7 else M.TEXT, k2]
    return seq_shape_ok(kinds, S(l0, 66), DISABLED_SPELLINGS[sp], exp_kinds)


specialise(
    "C04",
    "a.disabled-spelling",
    c04_disabled,
    {"k0": [M.TEXT, M.BGROUP, M.BREPEAT], "k2": [M.TEXT, M.EGROUP, M.EREPEAT]},
    skip_if=lambda fx: (fx["k0"], fx["k2"]) not in ((M.TEXT, M.TEXT), (M.BGROUP, M.EGROUP), (M.BREPEAT, M.EREPEAT)),
    timeout=400,
    kernel=K,
    shims=("S1", "S2", "S3", "S4"),
    symbolic="spelling of the disabled cell chosen by a symbolic index over the 14 truth spellings (7 true: the row produces nothing; 7 false: the row is an ordinary question), a label tracer",
    bounds="3 survey rows, the middle one carrying a disabled cell; outer rows fixed per instance (two questions / a group / a repeat around it: a skipped only child leaves an empty section)",
    weight=60,
)


def c04_seq3full(k0: int, k1: int, k2: int, l0: int) -> bool:
    """
    vpre: 0 <= k2 <= 9
    vpre: 33 <= l0 <= 126 and l0 != 36
    vpost: _ == True
    """
    return seq_shape_ok([k0, k1, k2], S(l0, 66))


specialise(
    "C04",
    "a.seq3full",
    c04_seq3full,
    {"k0": list(range(NK)), "k1": list(range(NK))},
    reach_if=lambda fx: fx["k1"] == M.TEXT,
    tiers=("thorough",),
    timeout=400,
    kernel=K,
    shims=("S1", "S2", "S3", "S4"),
    symbolic="third row kind over the 10-kind vocabulary (text, calculate, begin/end group, begin/end repeat, blank, select_one, disabled, comment) and a label tracer with one symbolic character",
    bounds="3 survey rows: all 1000 kind sequences",
    weight=50,
)


def c04_seq4(k0: int, k1: int, i2: int, i3: int, l0: int) -> bool:
    """
    vpre: 0 <= i2 <= 5 and 0 <= i3 <= 5
    vpre: 33 <= l0 <= 126 and l0 != 36
    vpost: _ == True
    """
    return seq_shape_ok([k0, k1, QV[i2], QV[i3]], S(l0, 65))


specialise(
    "C04",
    "a.seq4",
    c04_seq4,
    {"k0": [M.TEXT, M.BGROUP, M.BREPEAT], "k1": QV[:6]},
    tiers=("thorough",),
    timeout=900,
    kernel=K,
    shims=("S1", "S2", "S3", "S4"),
    symbolic="row kinds k2,k3 over {text, calculate, begin/end group, begin/end repeat} and a label tracer; k0,k1 fixed per instance",
    bounds="4 survey rows over the 6 structural kinds",
    weight=300,
)


# ---- c: deep nesting chains (template copies for every repeat) -----------------------------
import itertools as _it  # noqa: E402


def c04_chain(chain: str, sib: bool, l0: int) -> bool:
    """
    vpre: 33 <= l0 <= 126 and l0 != 36
    vpost: _ == True
    """
    lab = S(l0, 66)
    rows = []
    for i, k in enumerate(chain):
        rows.append({"type": "begin " + ("repeat" if k == "r" else "group"), "name": f"s{i}", "label": lab})
    rows.append({"type": "text", "name": "q", "label": lab})
    for i, k in reversed(list(enumerate(chain))):
        rows.append({"type": "end " + ("repeat" if k == "r" else "group")})
        if sib and i == len(chain) - 1:
            rows.append({"type": "integer", "name": "sibq", "label": "S"})
    survey, _w, _js = build_survey({"survey": rows})
    root = survey.xml()
    prim = child_elements(elements(root, "instance")[0])[0]
    # nesting of the data nodes (template copies removed) equals the sheet nesting
    want = [("q", [])]
    for i in reversed(range(len(chain))):
        inner = want
        if sib and i == len(chain) - 1:
            pass
        want = [(f"s{i}", inner)]
        if sib and i == len(chain) - 1:
            want = [(f"s{i}", inner)]
    # rebuild expected with the sibling placed after the innermost section
    def exp(i):
        if i == len(chain):
            return [("q", [])]
        kids = exp(i + 1)
        out = [(f"s{i}", kids)]
        if sib and i == len(chain) - 1:
            out.append(("sibq", []))
        return out

    if M.instance_shape(prim) != exp(0):
        return False
    # every repeat has at least one jr:template copy somewhere in the primary instance, and the
    # data copy (outside templates) is preceded by a template only at the outermost repeat level
    for i, k in enumerate(chain):
        if k == "r":
            copies = [e for e in elements(prim, f"s{i}") if M.is_template(e)]
            if len(copies) < 1:
                return False
            for c in copies:  # a template copy carries the question it will instantiate
                if len(elements(c, "q")) < 1:
                    return False
    # body nesting
    body = [c for c in child_elements(root) if c.tagName == "h:body"][0]
    cur = body
    path = "/data"
    for i, k in enumerate(chain):
        path += f"/s{i}"
        grp = [c for c in child_elements(cur) if c.tagName == "group" and c.getAttribute("ref") == path]
        if len(grp) != 1:
            return False
        cur = grp[0]
        if k == "r":
            rp = [c for c in child_elements(cur) if c.tagName == "repeat" and c.getAttribute("nodeset") == path]
            if len(rp) != 1:
                return False
            cur = rp[0]
    ins = [c for c in child_elements(cur) if c.tagName == "input" and c.getAttribute("ref") == path + "/q"]
    return len(ins) == 1 and M.closure_violation(root) is None


specialise(
    "C04",
    "c.nesting",
    c04_chain,
    {"chain": ["".join(c) for n in (2, 3) for c in _it.product("gr", repeat=n)]},
    timeout=400,
    kernel=K,
    shims=("S1", "S2", "S3", "S4"),
    symbolic="a label tracer with one symbolic character on every row; presence of a sibling question after the innermost section (boolean)",
    bounds="nesting chain of 2-3 sections fixed per instance (all 12 group/repeat chains) around one question",
    weight=50,
)


# ---- b': appearance cells reach their own control ---------------------------------------------
SECTION_APPEARANCES = [("{}", "field-list"), ("{} minimal", "field-list minimal"), ("minimal {}", "field-list minimal"), ("compact {} minimal", "field-list compact minimal")]


def c04_appearance(outer: int, mod: int, a0: int, a1: int, b0: int, b1: int) -> bool:
    """
    vpre: 0 <= mod <= 3
    vpre: 97 <= a0 <= 122 and 97 <= a1 <= 122 and 97 <= b0 <= 122 and 97 <= b1 <= 122
    vpost: _ == True
    """
    A, B = S(a0, a1), S(b0, b1)
    kind = ["group", "repeat", "group", "repeat"][outer]
    table = outer >= 2
    cell, want_sec = SECTION_APPEARANCES[mod]
    if not table:
        want_sec = cell.replace("{}", "field-list")  # written as is
    rows = [
        {"type": "begin " + kind, "name": "s", "label": "S", "appearance": cell.replace("{}", "table-list" if table else "field-list")},
        {"type": "select_one l1", "name": "q1", "label": "Q1"},
        {"type": "end " + kind},
        {"type": "select_one l1", "name": "q2", "label": "Q2", "appearance": A},
        {"type": "text", "name": "q3", "label": "Q3", "appearance": B},
    ]
    survey, _w, _js = build_survey({"survey": rows, "choices": M.CHOICES})
    root = survey.xml()
    prim = child_elements(elements(root, "instance")[0])[0]
    names = [c.tagName for c in child_elements(prim) if not M.is_template(c)]
    if names != ["s", "q2", "q3", "meta"]:
        return False  # no generated helper node may appear outside the table-list section
    q2 = [e for e in elements(root, "select1") if e.getAttribute("ref") == "/data/q2"]
    q3 = [e for e in elements(root, "input") if e.getAttribute("ref") == "/data/q3"]
    if len(q2) != 1 or len(q3) != 1:
        return False
    # the section's own control: table-list is rewritten to field-list, every other modifier kept in order
    sec = [e for e in elements(root, kind) if e.getAttribute("ref" if kind == "group" else "nodeset") == "/data/s"]
    if len(sec) != 1 or sec[0].getAttribute("appearance") != want_sec:
        return False
    return q2[0].getAttribute("appearance") == A and q3[0].getAttribute("appearance") == B


specialise(
    "C04",
    "b.appearance",
    c04_appearance,
    {"outer": [0, 1, 2, 3]},
    timeout=300,
    kernel=K,
    shims=("S1", "S2", "S3", "S4"),
    symbolic="two appearance cells of 2 symbolic letters on rows that follow a closed section; the section's own appearance cell chosen by a symbolic index over 4 modifier arrangements (alone, modifier after, modifier before, modifiers on both sides)",
    bounds="preceding section fixed per instance: field-list group, field-list repeat, table-list group, table-list repeat",
    weight=40,
)


# ---- d: question type table ------------------------------------------------------------------
from spec.tables import QUESTION_TYPES  # noqa: E402

SECOND = [2, 0, 17, 11]  # text, integer, select_one, image (indices into QUESTION_TYPES)


def _type_row_ok(root, name, spec, label, appearance):
    _t, tag, btype, cattrs, battrs = spec
    path = "/data/" + name
    prim = child_elements(elements(root, "instance")[0])[0]
    if len([c for c in child_elements(prim) if c.tagName == name]) != 1:
        return False
    binds = [b for b in elements(root, "bind") if b.getAttribute("nodeset") == path]
    if len(binds) != 1:
        return False
    b = binds[0]
    want = dict(battrs)
    want["nodeset"] = path
    want["type"] = btype
    got = {k: b.getAttribute(k) for k in b.attributes.keys()}
    if got != want:
        return False
    body = [c for c in child_elements(root) if c.tagName == "h:body"][0]
    ctrls = [e for e in elements(body) if e.getAttribute("ref") == path or e.getAttribute("nodeset") == path]
    if tag is None:
        return len(ctrls) == 0
    if len(ctrls) != 1 or ctrls[0].tagName != tag:
        return False
    c = ctrls[0]
    wantc = dict(cattrs)
    wantc["ref"] = path
    wantc["appearance"] = appearance
    gotc = {k: c.getAttribute(k) for k in c.attributes.keys()}
    if gotc != wantc:
        return False
    labels = [x for x in child_elements(c) if x.tagName == "label"]
    return len(labels) == 1 and text_of(labels[0]) == label


def c04_type_table(t: int, j: int, order: int, l0: int, a0: int, a1: int, b0: int) -> bool:
    """
    vpre: 0 <= j <= 3 and 0 <= order <= 1
    vpre: 33 <= l0 <= 126 and l0 != 36
    vpre: 97 <= a0 <= 122 and 97 <= a1 <= 122 and 97 <= b0 <= 122
    vpost: _ == True
    """
    spec0 = QUESTION_TYPES[t]
    spec1 = QUESTION_TYPES[SECOND[j]]
    L0, L1 = S(l0, 66), S(67, l0)
    A0, A1 = S(a0, a1), S(b0, 120)
    r0 = {"type": spec0[0], "name": "q1", "label": L0, "appearance": A0}
    r1 = {"type": spec1[0], "name": "q2", "label": L1, "appearance": A1}
    rows = [r0, r1] if order == 0 else [r1, r0]
    survey, _w, _js = build_survey({"survey": rows, "choices": M.CHOICES})
    root = survey.xml()
    prim = child_elements(elements(root, "instance")[0])[0]
    names = [c.tagName for c in child_elements(prim)]
    if names != ([r["name"] for r in rows] + ["meta"]):
        return False
    return _type_row_ok(root, "q1", spec0, L0, A0) and _type_row_ok(root, "q2", spec1, L1, A1) and M.closure_violation(root) is None


specialise(
    "C04",
    "d.type-table",
    c04_type_table,
    {"t": list(range(len(QUESTION_TYPES))), "order": [0]},
    reach_if=lambda fx: fx["t"] in (0, 11, 16, 19, 22),
    timeout=300,
    kernel=K + ("pyxform.question:InputQuestion.build_xml", "pyxform.question:UploadQuestion.build_xml", "pyxform.question:RangeQuestion.build_xml", "pyxform.question:TriggerQuestion.build_xml", "pyxform.question:MultipleChoiceQuestion.build_xml", "pyxform.survey_element:SurveyElement.xml_bindings"),
    shims=("S1", "S2", "S3", "S4"),
    symbolic="label tracer (1 symbolic character) and appearance cell (2 symbolic letters) of the typed row; a second row whose type is chosen by a symbolic index over {text, integer, select_one, image} with its own symbolic appearance; symbolic row order",
    bounds="one row per documented question type / alias spelling (37 type cells from spec/tables.py QUESTION_TYPES, fixed per instance) + one neighbour row; control tag, control attribute set, bind attribute set, label and instance node compared with the independent table",
    weight=30,
)

specialise(
    "C04",
    "d.type-table-rev",
    c04_type_table,
    {"t": list(range(len(QUESTION_TYPES))), "order": [1]},
    tiers=("thorough",),
    reach_if=lambda fx: fx["t"] in (0,),
    timeout=300,
    kernel=K + ("pyxform.question:InputQuestion.build_xml", "pyxform.question:UploadQuestion.build_xml", "pyxform.question:RangeQuestion.build_xml", "pyxform.question:TriggerQuestion.build_xml", "pyxform.question:MultipleChoiceQuestion.build_xml", "pyxform.survey_element:SurveyElement.xml_bindings"),
    shims=("S1", "S2", "S3", "S4"),
    symbolic="label tracer (1 symbolic character) and appearance cell (2 symbolic letters) of the typed row; a second row whose type is chosen by a symbolic index over {text, integer, select_one, image} with its own symbolic appearance; symbolic row order",
    bounds="one row per documented question type / alias spelling (37 type cells from spec/tables.py QUESTION_TYPES, fixed per instance) + one neighbour row; control tag, control attribute set, bind attribute set, label and instance node compared with the independent table",
    weight=30,
)


# ---- e: parameter-derived attributes next to appearance / body:: cells (round 3) --------------------------
PARAM_CASES = [
    ("geopoint", "capture-accuracy=5 warning-accuracy=9", "input", {"accuracyThreshold": "5", "unacceptableAccuracyThreshold": "9"}, {"type": "geopoint"}),
    ("geopoint", "warning-accuracy=7", "input", {"unacceptableAccuracyThreshold": "7"}, {"type": "geopoint"}),
    ("geotrace", "allow-mock-accuracy=true", "input", {}, {"type": "geotrace", "odk:allow-mock-accuracy": "true"}),
    ("range", "start=2 end=8 step=2", "range", {"start": "2", "end": "8", "step": "2"}, {"type": "int"}),
    ("text", "rows=3", "input", {"rows": "3"}, {"type": "string"}),
    ("image", "max-pixels=640", "upload", {"mediatype": "image/*"}, {"type": "binary", "orx:max-pixels": "640"}),
    ("audio", "quality=low", "upload", {"mediatype": "audio/*"}, {"type": "binary", "odk:quality": "low"}),
]


def c04_params_appearance(case: int, has_app: bool, has_body: bool, in_group: bool, a0: int, a1: int, b0: int) -> bool:
    """
    vpre: 97 <= a0 <= 122 and 97 <= a1 <= 122 and 97 <= b0 <= 122
    vpost: _ == True
    """
    typ, params, tag, cattrs, battrs = PARAM_CASES[case]
    A, Bv = S(a0, a1), S(b0, 49)
    q = {"type": typ, "name": "q1", "label": "L", "parameters": params}
    want = dict(cattrs)
    if has_app:
        q["appearance"] = A
        want["appearance"] = A
    if has_body:
        q["body::kk"] = Bv
        want["kk"] = Bv
    rows = [{"type": "begin group", "name": "g", "label": "G", "appearance": "field-list"}, q, {"type": "end group"}] if in_group else [q]
    rows.append({"type": typ, "name": "q2", "label": "M"})  # a neighbour of the same type without parameters
    survey, _w, _js = build_survey({"survey": rows})
    root = survey.xml()
    path = "/data/g/q1" if in_group else "/data/q1"
    want["ref"] = path
    c = [e for e in elements(root, tag) if e.getAttribute("ref") == path]
    if len(c) != 1 or {k: c[0].getAttribute(k) for k in c[0].attributes.keys()} != want:
        return False
    b = [e for e in elements(root, "bind") if e.getAttribute("nodeset") == path]
    wb_ = dict(battrs)
    wb_["nodeset"] = path
    if len(b) != 1 or {k: b[0].getAttribute(k) for k in b[0].attributes.keys()} != wb_:
        return False
    # the neighbour carries none of it
    c2 = [e for e in elements(root, tag) if e.getAttribute("ref") == "/data/q2"]
    d2 = {k: v for k, v in cattrs.items() if k == "mediatype"}
    if typ == "range":
        d2 = {"start": "1", "end": "10", "step": "1"}
    d2["ref"] = "/data/q2"
    return len(c2) == 1 and {k: c2[0].getAttribute(k) for k in c2[0].attributes.keys()} == d2


specialise(
    "C04",
    "e.params-appearance",
    c04_params_appearance,
    {"case": list(range(len(PARAM_CASES)))},
    reach_if=lambda fx: fx["case"] in (0, 3),
    timeout=300,
    kernel=K + ("pyxform.xls2json:workbook_to_json", "pyxform.question:RangeQuestion.build_xml", "pyxform.question:UploadQuestion.build_xml"),
    shims=("S1", "S2", "S3", "S4"),
    symbolic="presence of an appearance cell (2 symbolic letters), of a body:: column (1 symbolic letter) and of an enclosing field-list group (3 symbolic booleans)",
    bounds="7 (type, parameters) cases fixed per instance (geopoint accuracy thresholds, geotrace mock accuracy, range start/end/step, text rows, image max-pixels, audio quality); exact control and bind attribute sets from the XLSForm reference, neighbour row of the same type unaffected",
    weight=30,
)
