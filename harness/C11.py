"""C11 — settings reach the form header verbatim."""
from __future__ import annotations

from harness import shims
from harness.common import S, build_survey, child_elements, elements, text_of
from vf.registry import ob, specialise

shims.standard()

from pyxform.errors import PyXFormError  # noqa: E402
from spec.tables import norm_truth  # noqa: E402

OUTSIDE = "settings values longer than 2 characters (values are opaque tracers: the code never inspects them beyond the listed branches); sms_* settings; the file-path stem extraction of get_definition_data (C12)"
ASSUMPTIONS = [
    "R0: cell texts are non-empty, have no surrounding whitespace; alphabet U+0021-U+007E without '$' (so the C lexer behind validate_pyxform_reference_syntax is never entered)",
    "S1,S2,S4 shims inside CrossHair; witnesses re-run without them",
]
K = (
    "pyxform.xls2json:workbook_to_json",
    "pyxform.xls2json:clean_text_values",
    "pyxform.parsing.sheet_headers:dealias_and_group_headers",
    "pyxform.parsing.sheet_headers:process_header",
    "pyxform.builder:create_survey_element_from_dict",
    "pyxform.survey:Survey.xml",
    "pyxform.survey:Survey.xml_model",
    "pyxform.survey:Survey.xml_instance",
    "pyxform.survey:Survey.get_nsmap",
)


def _parts(root):
    """-> (head, body, title, model, primary_root) or None when the skeleton is wrong."""
    if root.tagName != "h:html":
        return None
    kids = child_elements(root)
    if len(kids) != 2 or kids[0].tagName != "h:head" or kids[1].tagName != "h:body":
        return None
    head, body = kids
    hk = child_elements(head)
    if len(hk) != 2 or hk[0].tagName != "h:title" or hk[1].tagName != "model":
        return None
    title, model = hk
    insts = [c for c in child_elements(model) if c.tagName == "instance"]
    if not insts:
        return None
    prim = insts[0]
    if prim.hasAttribute("id") or prim.hasAttribute("src"):
        return None
    pk = child_elements(prim)
    if len(pk) != 1:
        return None
    return head, body, title, model, pk[0]


def _bind_for(model, nodeset):
    return [b for b in child_elements(model) if b.tagName == "bind" and b.getAttribute("nodeset") == nodeset]


@ob(
    "C11",
    "a.routing.header",
    timeout=240,
    kernel=K,
    shims=("S1", "S2", "S3", "S4"),
    symbolic="title, form_id, version, style, form name: 2 symbolic characters each; alias spelling of title/id chosen by 2 symbolic booleans",
    bounds="one-question form; values length 2 over U+0021-U+007E minus '$'; form name over [A-Za-z_][A-Za-z0-9_]",
    weight=60,
)
def c11_header(t0: int, t1: int, i0: int, i1: int, v0: int, v1: int, s0: int, s1: int, n0: int, n1: int, alias_t: bool, alias_i: bool) -> bool:
    """
    pre: 33 <= t0 <= 126 and t0 != 36 and 33 <= t1 <= 126 and t1 != 36
    pre: 33 <= i0 <= 126 and i0 != 36 and 33 <= i1 <= 126 and i1 != 36
    pre: 33 <= v0 <= 126 and v0 != 36 and 33 <= v1 <= 126 and v1 != 36
    pre: 33 <= s0 <= 126 and s0 != 36 and 33 <= s1 <= 126 and s1 != 36
    pre: (97 <= n0 <= 122 or 65 <= n0 <= 90 or n0 == 95)
    pre: (97 <= n1 <= 122 or 65 <= n1 <= 90 or n1 == 95 or 48 <= n1 <= 57)
    post: _ == True
    """
    T, I, V, St, N = S(t0, t1), S(i0, i1), S(v0, v1), S(s0, s1), S(n0, n1)
    settings = {
        ("title" if alias_t else "form_title"): T,
        ("id_string" if alias_i else "form_id"): I,
        "version": V,
        "style": St,
    }
    wb = {"survey": [{"type": "text", "name": "q1", "label": "L"}], "settings": [settings]}
    survey, _w, _js = build_survey(wb, form_name=N, prefill=True)
    p = _parts(survey.xml())
    if p is None:
        return False
    head, body, title, model, prim = p
    if text_of(title) != T:
        return False
    if prim.tagName != N or prim.getAttribute("id") != I or prim.getAttribute("version") != V:
        return False
    if body.getAttribute("class") != St:
        return False
    # no leak: the values appear nowhere else
    attrs = sorted(prim.attributes.keys())
    if attrs != ["id", "version"]:
        return False
    if sorted(body.attributes.keys()) != ["class"]:
        return False
    if any(c.tagName == "submission" for c in child_elements(model)):
        return False
    if len(_bind_for(model, "/" + N + "/q1")) != 1:
        return False
    return True


@ob(
    "C11",
    "a.routing.submission",
    timeout=300,
    kernel=K,
    shims=("S1", "S2", "S3", "S4"),
    symbolic="submission_url, public_key, auto_send, auto_delete: presence (4 booleans) and 2 symbolic characters each",
    bounds="one-question form; values length 2 over U+0021-U+007E minus '$'",
    weight=80,
)
def c11_submission(pu: bool, pk: bool, ps: bool, pd: bool, u0: int, u1: int, k0: int, k1: int, a0: int, a1: int, d0: int, d1: int) -> bool:
    """
    pre: 33 <= u0 <= 126 and u0 != 36 and 33 <= u1 <= 126 and u1 != 36
    pre: 33 <= k0 <= 126 and k0 != 36 and 33 <= k1 <= 126 and k1 != 36
    pre: 33 <= a0 <= 126 and a0 != 36 and 33 <= a1 <= 126 and a1 != 36
    pre: 33 <= d0 <= 126 and d0 != 36 and 33 <= d1 <= 126 and d1 != 36
    post: _ == True
    """
    U, Kk, A, D = S(u0, u1), S(k0, k1), S(a0, a1), S(d0, d1)
    settings = {"form_id": "fid"}
    if pu:
        settings["submission_url"] = U
    if pk:
        settings["public_key"] = Kk
    if ps:
        settings["auto_send"] = A
    if pd:
        settings["auto_delete"] = D
    wb = {"survey": [{"type": "text", "name": "q1", "label": "L"}], "settings": [settings]}
    survey, _w, _js = build_survey(wb)
    p = _parts(survey.xml())
    if p is None:
        return False
    head, body, title, model, prim = p
    subs = [c for c in child_elements(model) if c.tagName == "submission"]
    want = {}
    if pu:
        want["action"] = U
        want["method"] = "post"
    if pk:
        want["base64RsaPublicKey"] = Kk
    if ps:
        want["orx:auto-send"] = A
    if pd:
        want["orx:auto-delete"] = D
    if not want:
        return len(subs) == 0
    if len(subs) != 1:
        return False
    sub = subs[0]
    got = {k: sub.getAttribute(k) for k in sub.attributes.keys()}
    if sorted(got.keys()) != sorted(want.keys()):
        return False
    for k in want:
        if got[k] != want[k]:
            return False
    # submission precedes the primary instance; title/id untouched
    order = [c.tagName for c in child_elements(model)]
    if order.index("submission") > order.index("instance"):
        return False
    return text_of(title) == "fid" and prim.getAttribute("id") == "fid" and sorted(prim.attributes.keys()) == ["id"]


@ob(
    "C11",
    "a.routing.instance",
    timeout=300,
    kernel=K,
    shims=("S1", "S2", "S3", "S4"),
    symbolic="instance_name, prefix, delimiter, attribute::xa value: presence booleans and 2 symbolic characters each",
    bounds="one-question form; values length 2 over U+0021-U+007E minus '$'",
    weight=80,
)
def c11_instance(pn: bool, pp: bool, pd: bool, pa: bool, n0: int, n1: int, p0: int, p1: int, d0: int, d1: int, a0: int, a1: int) -> bool:
    """
    pre: 33 <= n0 <= 126 and n0 != 36 and 33 <= n1 <= 126 and n1 != 36
    pre: 33 <= p0 <= 126 and p0 != 36 and 33 <= p1 <= 126 and p1 != 36
    pre: 33 <= d0 <= 126 and d0 != 36 and 33 <= d1 <= 126 and d1 != 36
    pre: 33 <= a0 <= 126 and a0 != 36 and 33 <= a1 <= 126 and a1 != 36
    post: _ == True
    """
    Nm, P, D, A = S(n0, n1), S(p0, p1), S(d0, d1), S(a0, a1)
    settings = {"form_id": "fid"}
    if pn:
        settings["instance_name"] = Nm
    if pp:
        settings["prefix"] = P
    if pd:
        settings["delimiter"] = D
    if pa:
        settings["attribute::xa"] = A
    wb = {"survey": [{"type": "text", "name": "q1", "label": "L"}], "settings": [settings]}
    survey, _w, _js = build_survey(wb)
    p = _parts(survey.xml())
    if p is None:
        return False
    head, body, title, model, prim = p
    want = {"id": "fid"}
    if pp:
        want["odk:prefix"] = P
    if pd:
        want["odk:delimiter"] = D
    if pa:
        want["xa"] = A
    got = {k: prim.getAttribute(k) for k in prim.attributes.keys()}
    if sorted(got.keys()) != sorted(want.keys()):
        return False
    for k in want:
        if got[k] != want[k]:
            return False
    metas = [c for c in child_elements(prim) if c.tagName == "meta"]
    if len(metas) != 1:
        return False
    mk = [c.tagName for c in child_elements(metas[0])]
    if mk != (["instanceID", "instanceName"] if pn else ["instanceID"]):
        return False
    b = _bind_for(model, "/data/meta/instanceName")
    if pn:
        if len(b) != 1 or b[0].getAttribute("calculate") != norm_truth(Nm):
            return False
    elif b:
        return False
    bi = _bind_for(model, "/data/meta/instanceID")
    return len(bi) == 1 and bi[0].getAttribute("jr:preload") == "uid" and bi[0].getAttribute("readonly") == "true()"


def c11_defaults(has_settings: bool, pt: bool, pi: bool, pstem: bool, p_iname: bool, omit: int, t0: int, t1: int, i0: int, i1: int, f0: int, f1: int) -> bool:
    """
    vpre: 33 <= t0 <= 126 and t0 != 36 and 33 <= t1 <= 126 and t1 != 36
    vpre: 33 <= i0 <= 126 and i0 != 36 and 33 <= i1 <= 126 and i1 != 36
    vpre: 33 <= f0 <= 126 and f0 != 36 and 33 <= f1 <= 126 and f1 != 36
    vpre: 0 <= omit <= 5
    vpost: _ == True
    """
    T, I, F = S(t0, t1), S(i0, i1), S(f0, f1)
    OM = [None, "yes", "true()", "TRUE", "no", "false()"]
    omit_v = OM[omit]
    wb = {"survey": [{"type": "text", "name": "q1", "label": "L"}]}
    st = {}
    if has_settings:
        if pt:
            st["form_title"] = T
        if pi:
            st["form_id"] = I
        if omit_v is not None:
            st["omit_instanceID"] = omit_v
        if p_iname:
            st["instance_name"] = "'nm'"
        st["version"] = "1"
        wb["settings"] = [st]
    kw = {}
    if pstem:
        kw["fallback_form_name"] = F
    survey, _w, _js = build_survey(wb, **kw)
    p = _parts(survey.xml())
    if p is None:
        return False
    head, body, title, model, prim = p
    exp_id = I if (has_settings and pi) else (F if pstem else "data")
    exp_title = T if (has_settings and pt) else exp_id
    if prim.getAttribute("id") != exp_id or text_of(title) != exp_title or prim.tagName != "data":
        return False
    # instance_name is independent of omit_instanceID
    bn = _bind_for(model, "/data/meta/instanceName")
    has_in = any(c.tagName == "instanceName" for c in elements(prim))
    if has_settings and p_iname:
        if not has_in or len(bn) != 1 or bn[0].getAttribute("calculate") != "'nm'":
            return False
    elif has_in or bn:
        return False
    omitted = has_settings and omit_v in ("yes", "true()", "TRUE")
    has_iid = any(c.tagName == "instanceID" for c in elements(prim))
    has_bind = len(_bind_for(model, "/data/meta/instanceID")) > 0
    if omitted:
        return (not has_iid) and (not has_bind)
    return has_iid and has_bind


specialise(
    "C11",
    "b.defaults",
    c11_defaults,
    {"omit": [0, 1, 2, 3, 4, 5]},
    timeout=300,
    kernel=K,
    shims=("S1", "S2", "S3", "S4"),
    symbolic="presence of form_title / form_id / settings sheet / fallback stem / instance_name (5 symbolic booleans); title, id, stem: 2 symbolic characters each",
    bounds="one-question form; omit_instanceID spelling fixed per instance over {absent, yes, true(), TRUE, no, false()}; values length 2",
    weight=60,
)


@ob(
    "C11",
    "a.routing.namespaces",
    timeout=400,
    kernel=K,
    shims=("S1", "S2", "S3", "S4"),
    symbolic="two namespace URIs (2 symbolic characters each after 'http://'), presence of the second namespace, of an entities sheet, of a namespaced attribute:: column (3 booleans), xml() generated twice (boolean)",
    bounds="prefixes 'ex' and 'ab' concrete (attribute names are dict keys); one-question form",
    weight=80,
)
def c11_namespaces(two: bool, ent: bool, attr: bool, twice: bool, u0: int, u1: int, w0: int, w1: int) -> bool:
    """
    pre: 97 <= u0 <= 122 and 97 <= u1 <= 122 and 97 <= w0 <= 122 and 97 <= w1 <= 122
    post: _ == True
    """
    U, W = "http://" + S(u0, u1), "http://" + S(w0, w1)
    ns = 'ex="' + U + '"'
    if two:
        ns += ' ab="' + W + '"'
    st = {"form_id": "fid", "namespaces": ns}
    if attr:
        st["attribute::ex:kind"] = "k"
    wb = {"survey": [{"type": "text", "name": "q1", "label": "L"}], "settings": [st]}
    if ent:
        wb["entities"] = [{"dataset": "ds", "label": "a"}]
    survey, _w, _js = build_survey(wb)
    root = survey.xml()
    if twice:
        root = survey.xml()
    want = {
        "xmlns": "http://www.w3.org/2002/xforms",
        "xmlns:h": "http://www.w3.org/1999/xhtml",
        "xmlns:ev": "http://www.w3.org/2001/xml-events",
        "xmlns:xsd": "http://www.w3.org/2001/XMLSchema",
        "xmlns:jr": "http://openrosa.org/javarosa",
        "xmlns:orx": "http://openrosa.org/xforms",
        "xmlns:odk": "http://www.opendatakit.org/xforms",
        "xmlns:ex": U,
    }
    if two:
        want["xmlns:ab"] = W
    if ent:
        want["xmlns:entities"] = "http://www.opendatakit.org/xforms/entities"
    got = {k: root.getAttribute(k) for k in root.attributes.keys()}
    if sorted(got.keys()) != sorted(want.keys()):
        return False
    for k in want:
        if got[k] != want[k]:
            return False
    p = _parts(root)
    if p is None:
        return False
    prim = p[4]
    if attr and prim.getAttribute("ex:kind") != "k":
        return False
    # every prefix used on any element/attribute is declared on the root
    for e in [root] + elements(root):
        names = [e.tagName] + list(e.attributes.keys())
        for n in names:
            if ":" in n and not n.startswith("xmlns"):
                if ("xmlns:" + n.split(":")[0]) not in got:
                    return False
    return True



# ---- b: title/id fall back to the file name (path input) -----------------------------------------
def c11_file_stem(sfx: int, has_title: bool, s0: int, s1: int) -> bool:
    """
    vpre: 0 <= sfx <= 5
    vpre: 97 <= s0 <= 122 and 97 <= s1 <= 122
    vpost: _ == True
    """
    from harness import C12 as h12
    from pyxform import xls2json_backends as B
    from pyxform.builder import create_survey_element_from_dict
    from pyxform.xls2json import workbook_to_json

    stem = S(s0, s1)
    path = "/forms/" + stem + h12.SUFFIXES[sfx]
    md = h12._MD + ("| settings |\n| | form_title |\n| | T |\n" if has_title else "")
    h12._FS.clear()
    h12._FS.append((path, md.encode("utf-8")))
    real = B.Path
    B.Path = h12._FakePath
    try:
        dd = B.get_xlsform(path)
    finally:
        B.Path = real
    js = workbook_to_json(workbook_dict=dd, fallback_form_name=dd.fallback_form_name, warnings=[])
    survey = create_survey_element_from_dict(js)
    p = _parts(survey.xml())
    if p is None:
        return False
    head, body, title, model, prim = p
    return prim.getAttribute("id") == stem and text_of(title) == ("T" if has_title else stem) and prim.tagName == "data"


specialise(
    "C11",
    "b.defaults.file-stem",
    c11_file_stem,
    {"has_title": [False, True]},
    timeout=300,
    kernel=K + ("pyxform.xls2json_backends:get_definition_data", "pyxform.xls2json_backends:get_xlsform"),
    shims=("S1", "S2", "S3", "S4", "S7-path"),
    symbolic="file stem of 2 symbolic letters and the file suffix (symbolic index over .md, .MD, .txt, none, .Md, .markdown)",
    bounds="Markdown form delivered as a path (in-memory file table behind pathlib); with and without a form_title setting",
    weight=40,
)


# ---- a: both spellings of the form id present, in either column order --------------------------------
@ob(
    "C11",
    "a.routing.id-aliases",
    timeout=300,
    kernel=K,
    shims=("S1", "S2", "S3", "S4"),
    symbolic="form_id and id_string values (2 symbolic characters each), which column comes first (boolean), header row supplied explicitly or derived from the row (boolean), title given as form_title / title / both (symbolic int)",
    bounds="one-question form whose settings sheet carries both documented spellings of the id column",
    weight=40,
)
def c11_id_aliases(form_id_first: bool, explicit_header: bool, tsel: int, i0: int, i1: int, j0: int, j1: int) -> bool:
    """
    pre: 0 <= tsel <= 2
    pre: 33 <= i0 <= 126 and i0 != 36 and 33 <= i1 <= 126 and i1 != 36
    pre: 33 <= j0 <= 126 and j0 != 36 and 33 <= j1 <= 126 and j1 != 36
    post: _ == True
    """
    I, J = S(i0, i1), S(j0, j1)
    st = {}
    cells = [("form_id", I), ("id_string", J)]
    if not form_id_first:
        cells.reverse()
    for k, v in cells:
        st[k] = v
    if tsel == 1:
        st["form_title"] = "TT"
    elif tsel == 2:
        st["title"] = "TT"
    wb = {"survey": [{"type": "text", "name": "q1", "label": "L"}], "settings": [st]}
    if explicit_header:
        wb["settings_header"] = [{k: None for k in st}]
    survey, warnings, _js = build_survey(wb)
    p = _parts(survey.xml())
    if p is None:
        return False
    head, body, title, model, prim = p
    # form_id is the id; the legacy spelling is ignored when both are present
    if prim.getAttribute("id") != I:
        return False
    return text_of(title) == ("TT" if tsel else I)


# ---- a'': values with inner white space (round 3) -----------------------------------------------
def c11_inner_space(a0: int, a1: int, b0: int, b1: int, c0: int, c1: int, ctv: int) -> bool:
    """
    vpre: 32 <= a0 <= 35 and 32 <= a1 <= 35 and 32 <= b0 <= 35 and 32 <= b1 <= 35 and 32 <= c0 <= 35 and 32 <= c1 <= 35
    vpre: 0 <= ctv <= 2
    vpost: _ == True
    """
    T, V, St = "t" + S(a0, a1) + "u", "v" + S(b0, b1) + "w", "x" + S(c0, c1) + "y"
    settings = {"form_title": T, "form_id": "fid", "version": V, "style": St}
    if ctv:
        settings["clean_text_values"] = ["", "yes", "no"][ctv]
    wb = {"survey": [{"type": "text", "name": "q1", "label": "L"}], "settings": [settings]}
    survey, _w, _js = build_survey(wb)
    p = _parts(survey.xml())
    if p is None:
        return False
    head, body, title, model, prim = p
    return text_of(title) == T and prim.getAttribute("version") == V and body.getAttribute("class") == St


specialise(
    "C11",
    "a.routing.inner-space",
    c11_inner_space,
    {"ctv": [0, 1, 2]},
    timeout=300,
    kernel=K,
    shims=("S1", "S2", "S4"),
    symbolic="title, version and style values of the form letter + 2 symbolic characters over U+0020-U+0023 (runs of spaces inside a value) + letter",
    bounds="one-question form, dict settings row; clean_text_values setting absent / yes / no per instance (it governs survey and choices cells, not settings)",
    weight=30,
)
