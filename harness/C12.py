"""C12 — container format and delivery channel do not matter (units decided: see OUTSIDE)."""
from __future__ import annotations

import types

from harness import shims
from harness.common import S
from vf.registry import ob, specialise

shims.standard()

from pyxform import xls2json_backends as B  # noqa: E402
from pyxform.errors import PyXFormError  # noqa: E402

OUTSIDE = ".xls/.xlsx/.xlsm container parsing (xlrd, openpyxl, zip, expat), csv.reader tokenisation, byte decoding and non-integral float rendering are C code and are not encoded; whole-conversion equality across binary containers is not decided. Decided: typed-cell canonicalisation, empty-run limits and trimming, the Markdown table reader, CSV row assembly."
ASSUMPTIONS = [
    "spreadsheet cells are modelled as objects with a .value attribute (the only attribute get_excel_rows reads)",
    "floats are modelled by CrossHair as reals: integral floats are float(n) for |n| <= 10^6",
    "the nested functions list_to_dicts / process_md_data / process_csv_data are executed from their own code objects (extracted from md_to_dict / csv_to_dict)",
]
K = (
    "pyxform.xls2json_backends:xls_value_to_unicode",
    "pyxform.xls2json_backends:xlsx_value_to_str",
    "pyxform.xls2json_backends:is_empty",
    "pyxform.xls2json_backends:get_excel_column_headers",
    "pyxform.xls2json_backends:get_excel_rows",
    "pyxform.xls2json_backends:trim_trailing_empty",
    "pyxform.xls2json_backends:_md_table_to_ss_structure",
    "pyxform.xls2json_backends:_md_strp_cell",
    "pyxform.xls2json_backends:md_to_dict",
    "pyxform.xls2json_backends:csv_to_dict",
)
XL_CELL_TEXT, XL_CELL_NUMBER, XL_CELL_BOOLEAN = 1, 2, 4  # xlrd cell type codes (xlrd documentation)


def _nested(outer, name, closure=None):
    for c in outer.__code__.co_consts:
        if isinstance(c, types.CodeType) and c.co_name == name:
            if c.co_freevars:
                cells = tuple(types.CellType(closure[v]) for v in c.co_freevars)
                return types.FunctionType(c, outer.__globals__, name, None, cells)
            return types.FunctionType(c, outer.__globals__, name)
    raise LookupError(name)


# ---- a: typed cells ----------------------------------------------------------------------
def c12_numbers(n: int, b: bool) -> bool:
    """
    vpre: -1000000000000000 <= n <= 1000000000000000
    vpost: _ == True
    """
    want = str(n)
    if B.xlsx_value_to_str(n) != want:
        return False
    for f, w in ((32.0, "32"), (-7.0, "-7"), (1e16, "10000000000000000")):
        if B.xlsx_value_to_str(f) != w or B.xls_value_to_unicode(f, XL_CELL_NUMBER, 0) != w:
            return False
    wb = "TRUE" if b else "FALSE"
    return B.xlsx_value_to_str(b) == wb and B.xls_value_to_unicode(1 if b else 0, XL_CELL_BOOLEAN, 0) == wb


specialise(
    "C12",
    "a.typed-cells.number",
    c12_numbers,
    {"b": [False, True]},
    timeout=200,
    kernel=K[:2],
    shims=(),
    symbolic="integer n (|n| <= 10^15) read as an int cell",
    bounds="boolean cell value fixed per instance; integral *floats* are not symbolic here: CrossHair models floats as reals and str(float) is C code (outside the claim); three concrete integral floats are pushed through both converters as a sanity check only",
    weight=20,
)


class Cell:
    def __init__(self, value):
        self.value = value


def _clean_xlsx(cell, row_n, key):
    # same cleaning closure as xlsx_to_dict.xlsx_clean_cell
    return _XLSX_CLEAN(cell, row_n, key)


_XLSX_CLEAN = _nested(B.xlsx_to_dict, "xlsx_clean_cell")


def c12_text_cell(n: int, c0: int, c1: int, c2: int) -> bool:
    """
    vpre: (32 <= c0 <= 126 or c0 == 160 or c0 == 9) and (32 <= c1 <= 126 or c1 == 160 or c1 == 9) and (32 <= c2 <= 126 or c2 == 160 or c2 == 9)
    vpost: _ == True
    """
    t = S(*((c0, c1, c2)[:n]))
    # reference: trim surrounding white space, NBSP read as a plain space; blank -> no cell
    ref = t.strip().replace(" ", " ")
    blank = t.strip() == ""
    got = _XLSX_CLEAN(Cell(t), 0, "k")
    if blank:
        return got is None
    if got != ref:
        return False
    return B.xls_value_to_unicode(t.strip(), XL_CELL_TEXT, 0) == ref


specialise(
    "C12",
    "a.typed-cells.text",
    c12_text_cell,
    {"n": [1, 2, 3]},
    timeout=300,
    kernel=K[:3] + ("pyxform.xls2json_backends:xlsx_to_dict",),
    shims=(),
    symbolic="text cell of n symbolic characters over printable ASCII + NBSP + TAB",
    bounds="n in 1..3",
    weight=40,
)


# ---- b: empty runs ------------------------------------------------------------------------
def c12_empty_rows(e1: int, e2: int, c0: int, c1: int) -> bool:
    """
    vpre: 33 <= c0 <= 126 and 33 <= c1 <= 126
    vpost: _ == True
    """
    t = S(c0, c1)
    data1 = (Cell("a"), Cell(t))
    data2 = (Cell(t), Cell("b"))
    empty = (Cell(None), Cell(" "))
    rows = [data1] + [empty] * e1 + [data2] + [empty] * e2
    got = B.get_excel_rows(headers=["h1", "h2"], rows=rows, cell_func=lambda cell, r, k: cell.value)
    first = {"h1": "a", "h2": t}
    second = {"h1": t, "h2": "b"}
    if e1 <= 60:  # the statement: runs of up to 60 empty rows never truncate a sheet
        want = [first] + [{}] * e1 + [second]
        return got == want
    # longer runs end the data (and the trailing run is trimmed)
    return got == [first]


_WQ = [(a, b) for a in (0, 1, 2, 59, 60, 61, 62) for b in (0, 1, 61)]
for _e1, _e2 in _WQ:
    specialise(
        "C12",
        "b.empty-rows",
        c12_empty_rows,
        {"e1": [_e1], "e2": [_e2]},
        reach_if=lambda fx: fx["e2"] == 0,
        timeout=120,
        kernel=K[2:6],
        shims=(),
        symbolic="cell text of 2 symbolic characters in both data rows",
        bounds="inner empty run e1 and trailing empty run e2 fixed per instance (boundary windows around 0 and 60/61)",
        weight=10,
    )


def c12_empty_rows_range(lo: int, e1: int, e2: int, c0: int) -> bool:
    """
    vpre: lo <= e1 < lo + 4 and 0 <= e2 <= 2
    vpre: 33 <= c0 <= 126
    vpost: _ == True
    """
    return c12_empty_rows(e1, e2, c0, 65)


specialise(
    "C12",
    "b.empty-rows.sweep",
    c12_empty_rows_range,
    {"lo": list(range(0, 64, 4))},
    tiers=("thorough",),
    timeout=600,
    kernel=K[2:6],
    shims=(),
    symbolic="inner empty run e1 in [lo, lo+3], trailing run e2 in [0,2], one symbolic cell character",
    bounds="e1 over 0..63 across the 16 instances",
    weight=100,
)


def c12_empty_cols(e1: int, e2: int, c0: int, c1: int) -> bool:
    """
    vpre: 97 <= c0 <= 122 and 97 <= c1 <= 122
    vpost: _ == True
    """
    h = S(c0, c1)
    first_row = ["type", h + "x"] + [None] * e1 + [h + "y"] + [" "] * e2
    got = B.get_excel_column_headers(first_row=first_row)
    while got and got[-1] is None:  # a left-over empty trailing header is not a column
        got = got[:-1]
    if e1 <= 20:  # runs of up to 20 empty columns never truncate a sheet
        return got == ["type", h + "x"] + [None] * e1 + [h + "y"]
    return got == ["type", h + "x"]


for _e1, _e2 in [(a, b) for a in (0, 1, 19, 20, 21, 22) for b in (0, 2, 21)]:
    specialise(
        "C12",
        "b.empty-cols",
        c12_empty_cols,
        {"e1": [_e1], "e2": [_e2]},
        reach_if=lambda fx: fx["e2"] == 0,
        timeout=120,
        kernel=K[2:6],
        shims=(),
        symbolic="header text of 2 symbolic letters",
        bounds="inner empty run e1 and trailing empty run e2 of header cells fixed per instance (windows around 0 and 20/21)",
        weight=10,
    )


# ---- c: Markdown reader -------------------------------------------------------------------
_LIST_TO_DICTS = _nested(B.md_to_dict, "list_to_dicts")
_PROCESS_MD = _nested(B.md_to_dict, "process_md_data", {"list_to_dicts": _LIST_TO_DICTS})


def _md_ok(c: int) -> str:
    return f"(32 <= {c} <= 126 and {c} != 124 and {c} != 35 and {c} != 92)"


def c12_markdown(n1: int, n2: int, a0: int, a1: int, b0: int, b1: int, pad: int) -> bool:
    """
    vpre: 32 <= a0 <= 126 and a0 != 124 and a0 != 35 and a0 != 92 and 32 <= a1 <= 126 and a1 != 124 and a1 != 35 and a1 != 92
    vpre: 32 <= b0 <= 126 and b0 != 124 and b0 != 35 and b0 != 92 and 32 <= b1 <= 126 and b1 != 124 and b1 != 35 and b1 != 92
    vpre: 0 <= pad <= 2
    vpost: _ == True
    """
    t1 = S(*((a0, a1)[:n1]))
    t2 = S(*((b0, b1)[:n2]))
    sp = " " * pad
    md = (
        "| survey |\n"
        "| | type | name | label |\n"
        "| | text | q1 |" + sp + t1 + sp + "|\n"
        "| | note | q2 |" + sp + t2 + sp + "|\n"
        "| settings |\n"
        "| | form_title |\n"
        "| | T |\n"
    )
    got = _PROCESS_MD(md)

    def row(typ, name, t):
        d = {"type": typ, "name": name}
        if t.strip() != "":
            d["label"] = t.strip()
        return d

    if got["sheet_names"] != ["survey", "settings"]:
        return False
    if got["survey"] != [row("text", "q1", t1), row("note", "q2", t2)]:
        return False
    if got["survey_header"] != [{"type": None, "name": None, "label": None}]:
        return False
    return got["settings"] == [{"form_title": "T"}]


specialise(
    "C12",
    "c.markdown",
    c12_markdown,
    {"n1": [1, 2], "n2": [0, 1]},
    timeout=400,
    kernel=K[6:9],
    shims=(),
    symbolic="two label cells of up to 2 symbolic printable characters (no '|', '#', backslash), 0-2 spaces of padding around them",
    bounds="fixed 2-sheet Markdown skeleton (survey 2 rows x 3 columns, settings 1 row)",
    weight=80,
)


# ---- d: CSV row assembly ------------------------------------------------------------------
_PROCESS_CSV = _nested(B.csv_to_dict, "process_csv_data", {"first_column_as_sheet_name": _nested(B.csv_to_dict, "first_column_as_sheet_name")})


def c12_csv_rows(n1: int, a0: int, a1: int, pad: int, blank_row: bool) -> bool:
    """
    vpre: 32 <= a0 <= 126 and 32 <= a1 <= 126
    vpre: 0 <= pad <= 2
    vpost: _ == True
    """
    t1 = S(*((a0, a1)[:n1]))
    sp = " " * pad
    rows = [["survey"], ["", "type", "name", "label"], ["", "text", "q1", sp + t1 + sp]]
    if blank_row:
        rows.append(["", "", "", ""])
    rows += [["", "note", "q2", "L2"], ["settings"], ["", "form_title"], ["", "T"]]
    got = _PROCESS_CSV(rows)
    r1 = {"type": "text", "name": "q1"}
    if t1.strip() != "":
        r1["label"] = t1.strip()
    want = [r1, {"type": "note", "name": "q2", "label": "L2"}]
    return got["survey"] == want and got["settings"] == [{"form_title": "T"}] and got["sheet_names"] == ["survey", "settings"]


specialise(
    "C12",
    "d.csv-rows",
    c12_csv_rows,
    {"n1": [1, 2]},
    timeout=300,
    kernel=(K[9],),
    shims=(),
    symbolic="one label cell of up to 2 symbolic printable characters, 0-2 spaces of padding, presence of an all-empty row",
    bounds="already-tokenised CSV rows (csv.reader itself is C code)",
    weight=40,
)


# ---- f: delivery channel (path vs in-memory) ------------------------------------------------------
import pathlib as _pl  # noqa: E402

_MD = "| survey |\n| | type | name | label |\n| | text | q1 | L |\n"
_FS = []  # list of (path, bytes): linear lookup, no hashing of symbolic paths


class _FakePath:
    """environment model: a path object whose file content comes from an in-memory table;
    name/stem/suffix follow pathlib's documented rules for POSIX paths"""

    def __init__(self, p):
        self.p = p if isinstance(p, str) else str(p)

    def __str__(self):
        return self.p

    def __fspath__(self):
        return self.p

    def is_file(self):
        for k, _v in _FS:
            if k == self.p:
                return True
        return False

    def read_bytes(self):
        for k, v in _FS:
            if k == self.p:
                return v
        raise FileNotFoundError(self.p)

    @property
    def name(self):
        return self.p[self.p.rfind("/") + 1 :]

    @property
    def suffix(self):
        n = self.name
        i = n.rfind(".")
        if 0 < i < len(n) - 1:
            return n[i:]
        return ""

    @property
    def stem(self):
        n = self.name
        i = n.rfind(".")
        if 0 < i < len(n) - 1:
            return n[:i]
        return n


SUFFIXES = [".md", ".MD", ".txt", "", ".Md", ".markdown"]


def c12_delivery(kind: int, sfx: int, s0: int, s1: int) -> bool:
    """
    vpre: 0 <= sfx <= 5
    vpre: (97 <= s0 <= 122 or 65 <= s0 <= 90) and (97 <= s1 <= 122 or 48 <= s1 <= 57 or s1 == 95)
    vpost: _ == True
    """
    import io

    stem = S(s0, s1)
    path = "/forms/" + stem + SUFFIXES[sfx]
    _FS.clear()
    _FS.append((path, _MD.encode("utf-8")))
    real = B.Path
    B.Path = _FakePath
    try:
        if kind == 0:
            dd = B.get_xlsform(path)
            want_stem = stem
        elif kind == 1:
            dd = B.get_xlsform(_MD.encode("utf-8"))
            want_stem = None
        elif kind == 2:
            dd = B.get_xlsform(io.BytesIO(_MD.encode("utf-8")))
            want_stem = None
        else:
            dd = B.get_xlsform(_MD)  # text that is not an existing path
            want_stem = None
    finally:
        B.Path = real
    if dd.fallback_form_name != want_stem:
        return False
    return dd.survey == [{"type": "text", "name": "q1", "label": "L"}] and dd.sheet_names == ["survey"]


specialise(
    "C12",
    "f.delivery",
    c12_delivery,
    {"kind": [0, 1, 2, 3]},
    timeout=300,
    kernel=("pyxform.xls2json_backends:get_definition_data", "pyxform.xls2json_backends:definition_to_dict", "pyxform.xls2json_backends:get_xlsform"),
    shims=("S7-path",),
    symbolic="file stem of 2 symbolic characters and the file suffix (symbolic index over .md, .MD, .txt, none, .Md, .markdown)",
    bounds="delivery channel fixed per instance: path (in-memory file table behind pathlib), bytes, BytesIO, text; Markdown content concrete",
    weight=30,
)


# ---- b': the xlsx sheet reader above a model of the openpyxl worksheet API ------------------------
class _FakeSheet:
    """environment model of openpyxl's read-only worksheet: `.rows` iterates tuples of cells,
    `.iter_rows(min_row, max_col)` yields rows from `min_row` (1-based) cut to `max_col` cells
    (openpyxl documentation)."""

    def __init__(self, grid):
        self.grid = grid

    @property
    def rows(self):
        return iter([tuple(Cell(v) for v in r) for r in self.grid])

    def iter_rows(self, min_row=1, max_col=None):
        for r in self.grid[min_row - 1 :]:
            cells = tuple(Cell(v) for v in r)
            yield cells if max_col is None else cells[:max_col]


_XLSX_SHEET = _nested(B.xlsx_to_dict, "xlsx_to_dict_normal_sheet", {"xlsx_clean_cell": _XLSX_CLEAN})


def c12_xlsx_sheet(e1: int, lead: int, c0: int, c1: int) -> bool:
    """
    vpre: 33 <= c0 <= 126 and 33 <= c1 <= 126
    vpost: _ == True
    """
    t = S(c0, c1)
    header = [None] * lead + ["type"] + [None] * e1 + ["name", "label"]
    row1 = [None] * lead + ["text"] + [None] * e1 + ["q1", t]
    row2 = [None] * lead + ["note"] + [None] * e1 + ["q2", None]
    rows, hdr = _XLSX_SHEET(_FakeSheet([header, row1, row2]))
    return rows == [{"type": "text", "name": "q1", "label": t}, {"type": "note", "name": "q2"}] and hdr == [{"type": None, "name": None, "label": None}]


specialise(
    "C12",
    "b.xlsx-sheet",
    c12_xlsx_sheet,
    {"e1": [0, 1, 3, 20], "lead": [0, 1]},
    reach_if=lambda fx: fx["e1"] == 0 and fx["lead"] == 0,
    timeout=200,
    kernel=("pyxform.xls2json_backends:xlsx_to_dict", "pyxform.xls2json_backends:get_excel_column_headers", "pyxform.xls2json_backends:get_excel_rows"),
    shims=("S7-sheet",),
    symbolic="a label cell of 2 symbolic printable characters in the last column",
    bounds="empty header columns between / before the data columns fixed per instance (0, 1, 3, 20 interior; 0-1 leading); the worksheet is a model of the openpyxl API (container parsing itself is outside the claim)",
    weight=10,
)


# ---- g: dict delivery without header rows: same itemsets CSV as the sheet with its header row --------
from harness.C09 import c09_itemsets  # noqa: E402

shims.s6_csv_writer()
specialise(
    "C12",
    "g.dict-itemsets",
    c09_itemsets,
    {"nest": [0, 2], "lname": [0], "twice": [False]},
    timeout=400,
    kernel=("pyxform.utils:external_choices_to_csv", "pyxform.utils:has_external_choices", "pyxform.xls2json_backends:get_xlsform", "pyxform.xls2json:workbook_to_json"),
    shims=("S1", "S2", "S4", "S6"),
    symbolic="explicit external_choices header row supplied (as the md/xlsx readers do) or not (plain dict delivery) (boolean), presence of optional cells on two sparse rows (3 booleans), two symbolic characters inside cell texts",
    bounds="2 external_choices rows x 5 columns; the itemsets CSV must be the sheet image under either delivery",
    weight=60,
)


# ---- d': CSV text -> rows through the real csv_to_dict, with csv.reader / StringIO modelled (S13) -----------------
class _LinesModel:
    """io.StringIO(initial_value=s, newline='') as an iterable of physical lines: terminators \\n, \\r, \\r\\n are kept
    untranslated at the end of each line (documented behaviour of newline='')."""

    def __init__(self, initial_value="", newline=None):
        self.s = initial_value

    def __iter__(self):
        s, i, n, start = self.s, 0, len(self.s), 0
        while i < n:
            ch = s[i]
            if ch == "\n":
                yield s[start : i + 1]
                start = i + 1
            elif ch == "\r":
                if i + 1 < n and s[i + 1] == "\n":
                    i += 1
                yield s[start : i + 1]
                start = i + 1
            i += 1
        if start < n:
            yield s[start:]


def _csv_reader_model(lines, *a, **kw):
    """csv.reader with the default 'excel' dialect over an iterable of lines (written from the csv module documentation and
    RFC 4180): comma delimiter, double-quote quoting with doubled quotes, a record ends at an unquoted line terminator,
    characters of a quoted field (including line terminators present in the line strings) are kept verbatim."""
    field, row, inq, started = [], [], False, False
    for line in lines:
        i, n = 0, len(line)
        while i < n:
            ch = line[i]
            if inq:
                if ch == '"':
                    if i + 1 < n and line[i + 1] == '"':
                        field.append('"')
                        i += 1
                    else:
                        inq = False
                else:
                    field.append(ch)
            elif ch == '"' and not field:
                inq = True
                started = True
            elif ch == ",":
                row.append("".join(field))
                field = []
                started = True
            elif ch == "\n" or ch == "\r":
                pass
            else:
                field.append(ch)
                started = True
            i += 1
        if not inq:
            if started or field:
                row.append("".join(field))
            yield row
            field, row, started = [], [], False
    if inq or row or field:
        row.append("".join(field))
        yield row


class _Def:
    def __init__(self, text):
        self.data = self
        self.t = text

    def getvalue(self):
        return self

    def decode(self, enc):
        return self.t


def c12_csv_text(eol: int, a0: int, a1: int, b0: int) -> bool:
    """
    vpre: 9 <= a0 <= 13 and 35 <= a1 <= 126 and 35 <= b0 <= 126
    vpost: _ == True
    """
    import types

    E = ["\n", "\r\n", "\r"][eol]
    cell = "x" + S(a0, a1)
    text = "survey" + E + ",type,name,label,hint" + E + ',text,q1,"' + cell + '","' + S(b0) + '"' + E + ',note,q2,"a ""b"", c",' + E + "settings" + E + ",form_title" + E + ",T" + E
    fake_csv = types.SimpleNamespace(reader=_csv_reader_model)
    saved = (B.get_definition_data, B.csv, B.StringIO)
    B.get_definition_data = lambda definition: _Def(definition)
    if shims.SYMBOLIC:
        B.csv, B.StringIO = fake_csv, _LinesModel
    try:
        got = B.csv_to_dict(text)
    finally:
        B.get_definition_data, B.csv, B.StringIO = saved
    want = [{"type": "text", "name": "q1", "label": cell, "hint": S(b0)}, {"type": "note", "name": "q2", "label": 'a "b", c'}]
    return got["survey"] == want and got["settings"] == [{"form_title": "T"}] and got["sheet_names"] == ["survey", "settings"]


specialise(
    "C12",
    "d.csv-text",
    c12_csv_text,
    {"eol": [0, 1, 2]},
    timeout=300,
    kernel=("pyxform.xls2json_backends:csv_to_dict", "pyxform.xls2json_backends:is_csv", "pyxform.utils:count_characters_limit"),
    shims=("S13",),
    symbolic="a quoted label cell 'x'+2 symbolic characters whose first ranges over U+0009-U+000D (TAB, LF, VT, FF, CR: a line break inside a cell) and second over U+0023-U+007E; one symbolic hint character",
    bounds="fixed CSV text of 2 sheets, record terminator LF / CRLF / CR per instance; csv.reader and StringIO(newline='') replaced by pure-Python models inside CrossHair (the witness is replayed on the C reader)",
    weight=40,
)
