"""C18 — validator verdicts are honoured and failures leave no residue."""
from __future__ import annotations

import types

from harness import shims
from harness.common import S
from vf.registry import ob, specialise

shims.standard()

import pyxform.survey as sv  # noqa: E402
import pyxform.validators.odk_validate as ov  # noqa: E402
import pyxform.xls2xform as xx  # noqa: E402
from pyxform.errors import PyXFormError  # noqa: E402
from pyxform.question import InputQuestion  # noqa: E402
from pyxform.survey import Survey  # noqa: E402
from pyxform.validators.error_cleaner import ErrorCleaner  # noqa: E402

OUTSIDE = "the real subprocess, watchdog timer, signals, the Java runtime and the validator jar (replaced by a stub returning an arbitrary PopenResult); Enketo validate; the real file system (replaced by an in-memory model)"
ASSUMPTIONS = [
    "S7 environment model (applied in symbolic runs and in replays, it is the environment): tempfile.NamedTemporaryFile / open / os.path.exists / os.unlink / Path.unlink act on an in-memory file table; shutil.which and _call_validator return symbolic outcomes (return code in [-3,3], timeout flag, stderr text, java present, write failure)",
]
K = (
    "pyxform.survey:Survey.to_xml",
    "pyxform.survey:Survey.print_xform_to_file",
    "pyxform.validators.odk_validate:check_xform",
    "pyxform.validators.odk_validate:check_java_available",
    "pyxform.validators.error_cleaner:ErrorCleaner.odk_validate",
    "pyxform.validators.error_cleaner:ErrorCleaner._cleanup_errors",
    "pyxform.validators.error_cleaner:ErrorCleaner._remove_java_content",
    "pyxform.validators.error_cleaner:ErrorCleaner._replace_xpath_with_tokens",
    "pyxform.xls2xform:xls2xform_convert",
    "pyxform.xls2xform:_validator_args_logic",
    "pyxform.xls2xform:main_cli",
)


class Env:
    """in-memory environment"""

    def __init__(self):
        self.files = {}
        self.counter = 0
        self.write_fail = False
        self.java = True
        self.result = None
        self.validator_calls = 0


ENV = Env()


class _Tmp:
    def __init__(self, name):
        self.name = name

    def close(self):
        pass


def _named_tmp(delete=False, **kw):
    ENV.counter += 1
    name = f"/tmpmodel/tmp{ENV.counter}"
    ENV.files[name] = ""
    return _Tmp(name)


class _File:
    def __init__(self, path):
        self.path = path
        self.buf = ""

    def write(self, s):
        if ENV.write_fail:
            ENV.files[self.path] = "partial"
            raise OSError("disk full (model)")
        self.buf = self.buf + s

    def __enter__(self):
        ENV.files[self.path] = ""
        return self

    def __exit__(self, et, ev, tb):
        if et is None:
            ENV.files[self.path] = self.buf
        return False


def _open(path, mode="r", encoding=None, newline=None):
    return _File(str(path))


class _Path:
    def __init__(self, p):
        self.p = str(p)

    def __str__(self):
        return self.p

    def __fspath__(self):
        return self.p

    def unlink(self, missing_ok=False):
        if self.p in ENV.files:
            del ENV.files[self.p]
        elif not missing_ok:
            raise FileNotFoundError(self.p)

    @property
    def parent(self):
        return _Path(self.p.rsplit("/", 1)[0])

    def __truediv__(self, other):
        return _Path(self.p + "/" + str(other))


class _PopenResult:
    def __init__(self, rc, timeout, stderr):
        self.return_code = rc
        self.timeout = timeout
        self.stdout = ""
        self.stderr = stderr


def _install_env():
    fake_os = types.SimpleNamespace(
        path=types.SimpleNamespace(exists=lambda p: str(p) in ENV.files, splitext=__import__("os").path.splitext),
        unlink=lambda p: ENV.files.pop(str(p)),
    )
    sv.os = fake_os
    sv.tempfile = types.SimpleNamespace(NamedTemporaryFile=_named_tmp)
    sv.open = _open
    sv.Path = _Path
    ov.shutil = types.SimpleNamespace(which=lambda cmd: "/usr/bin/java" if ENV.java else None)

    def call_validator(path_to_xform, bin_file_path=None):
        ENV.validator_calls += 1
        if str(path_to_xform) not in ENV.files:
            raise AssertionError("validator called on a file that does not exist")
        return ENV.result

    ov._call_validator = call_validator
    xx.open = _open
    xx.Path = _Path
    shims._mark("S7")


_install_env()
xx.logger.disabled = True  # logging handlers write to stderr (blocked side effect under CrossHair)


def _survey():
    s = Survey(name="data", id_string="f", title="t")
    s.add_child(InputQuestion(name="q", type="text", label="L"))
    return s


def _reset(java, write_fail, rc, timeout, stderr):
    ENV.files = {}
    ENV.counter = 0
    ENV.write_fail = write_fail
    ENV.java = java
    ENV.result = _PopenResult(rc, timeout, stderr)
    ENV.validator_calls = 0


def c18_verdict(validate: bool, pretty: bool, java: bool, write_fail: bool, rc: int, timeout: bool, has_err: bool, e0: int, e1: int) -> bool:
    """
    vpre: -3 <= rc <= 3
    vpre: 97 <= e0 <= 122 and 97 <= e1 <= 122
    vpost: _ == True
    """
    stderr = S(e0, e1) if has_err else ""
    _reset(java, write_fail, rc, timeout, stderr)
    s = _survey()
    warnings = []
    outcome = None
    try:
        xml = s.to_xml(validate=validate, pretty_print=pretty, warnings=warnings)
        outcome = "ok"
    except ov.ODKValidateError as e:
        outcome = "invalid"
        msg = e.args[0]  # str(exception) would realise the symbolic text
    except OSError:
        outcome = "oserror"
    # no residue under every outcome
    if len(ENV.files) != 0:
        return False
    if write_fail:
        return outcome == "oserror" and ENV.validator_calls == 0
    if not validate:
        return outcome == "ok" and ENV.validator_calls == 0 and warnings == [] and xml.startswith("<?xml")
    if not java:
        return outcome == "oserror" and ENV.validator_calls == 0
    if ENV.validator_calls != 1:
        return False
    if timeout:
        return outcome == "ok" and len(warnings) == 1
    if rc > 0:
        return outcome == "invalid" and stderr in msg  # letters-only text: the cleaner leaves it unchanged (b.cleaner decides the cleaner)
    if rc == 0:
        if outcome != "ok":
            return False
        if has_err:
            return len(warnings) == 1 and stderr in warnings[0]
        return warnings == []
    return outcome == "ok" and len(warnings) == 1


specialise(
    "C18",
    "a.verdict-and-residue",
    c18_verdict,
    {"validate": [False, True], "java": [False, True], "write_fail": [False, True]},
    reach_if=lambda fx: fx["validate"] and fx["java"] and not fx["write_fail"],
    timeout=400,
    kernel=K[:5],
    shims=("S1", "S2", "S3", "S4", "S7"),
    symbolic="validator return code in [-3,3], timeout flag, stderr present (boolean) with 2 symbolic letters, pretty_print flag",
    bounds="one-question survey; validate / java present / write failure fixed per instance (all 8 combinations)",
    weight=100,
)


WRAPPED = ["", "org.javarosa.xpath.XPathUnhandledException: ", "org.javarosa.xform.parse.XFormParseException: ", "java.lang.NullPointerException: "]


def c18_cleaner(shape: int, a0: int, a1: int, b0: int, b1: int, wi: int = 0) -> bool:
    """
    vpre: 0 <= wi <= 3
    vpre: (97 <= a0 <= 122 or a0 == 95) and (97 <= a1 <= 122 or 48 <= a1 <= 57 or a1 == 95 or a1 == 45)
    vpre: (97 <= b0 <= 122 or b0 == 95) and (97 <= b1 <= 122 or 48 <= b1 <= 57 or b1 == 95 or b1 == 45)
    vpost: _ == True
    """
    A, B = S(a0, a1), S(b0, b1)
    if shape == 0:  # instance path -> ${last segment}
        msg = "Error evaluating field '" + B + "': /data/" + A + "/" + B + " is bad"
        want = "Error evaluating field '" + B + "': ${" + B + "} is bad"
    elif shape == 1:  # body path untouched
        msg = "Problem at /html/body/select1[@ref=/data/" + A + "]/item/value here"
        want = None
    elif shape == 2:  # consecutive duplicates removed, java stack noise removed
        msg = "Bad " + A + "\nBad " + A + "\n\tat org.javarosa.Foo(" + B + ".java:12)\nnext " + B
        want = "Bad " + A + "\nnext " + B
    elif shape == 3:  # known exception prefixes stripped
        msg = "java.lang.RuntimeException: " + A + " failed\norg.javarosa.xpath.XPathUnhandledException: " + B
        want = A + " failed\n" + B
    elif shape == 4:  # secondary instance item path untouched
        msg = "XPath /root/item/" + A + " and /data/" + A + "/" + B
        want = "XPath /root/item/" + A + " and ${" + B + "}"
    elif shape == 6:  # a RuntimeException wrapping another exception: no Java class name survives
        msg = "java.lang.RuntimeException: " + WRAPPED[wi] + A + " failed\nnext " + B
        got = ErrorCleaner.odk_validate(msg)
        return ("java.lang." not in got) and ("org.javarosa." not in got) and got.endswith(A + " failed\nnext " + B)
    else:  # jar missing: returned as is
        msg = "Error: Unable to access jarfile /home/" + A + "/" + B + ".jar"
        want = msg
    got = ErrorCleaner.odk_validate(msg)
    if shape == 1:
        # the body path must survive; instance path inside the predicate may be tokenised or not
        return "/html/body/select1" in got and "/item/value" in got
    return got == want


specialise(
    "C18",
    "b.cleaner",
    c18_cleaner,
    {"shape": [0, 1, 2, 3, 4, 5, 6]},
    timeout=400,
    kernel=K[4:8],
    shims=(),
    symbolic="two path segments of 2 symbolic characters over [a-z_][a-z0-9_-]; for the wrapped-exception template the inner exception class chosen by a symbolic index (none, XPathUnhandledException, XFormParseException, NullPointerException)",
    bounds="stderr template fixed per instance (instance path, body path, duplicates + Java stack noise, exception prefixes, secondary-instance path, missing jar, RuntimeException wrapping another exception)",
    weight=60,
)


@ob(
    "C18",
    "d.cli-args",
    timeout=120,
    kernel=(K[9],),
    shims=(),
    symbolic="the three validator flags as parsed by argparse (3 symbolic booleans) and a symbolic output-path character",
    bounds="all 8 flag combinations",
    weight=10,
)
def c18_args(skip_validate_given: bool, odk: bool, enketo: bool, p0: int) -> bool:
    """
    pre: 97 <= p0 <= 122
    post: _ == True
    """
    # argparse stores --skip_validate with action=store_false: attribute is False when the flag is given
    args = types.SimpleNamespace(skip_validate=not skip_validate_given, odk_validate=odk, enketo_validate=enketo, output_path=S(p0))
    out = xx._validator_args_logic(args)
    if skip_validate_given:
        want = (False, False)
    elif not odk and not enketo:
        want = (True, False)
    else:
        want = (odk, enketo)
    return (out.odk_validate, out.enketo_validate) == want and out.output_path == S(p0)


@ob(
    "C18",
    "d.cli-write",
    timeout=300,
    kernel=(K[8],),
    shims=("S7",),
    symbolic="conversion outcome (ok / validation error / form error), itemsets present (boolean), pre-existing output file (boolean), XForm text tracer character",
    bounds="xls2xform_convert with convert() replaced by a stub returning the symbolic outcome",
    weight=30,
)
def c18_cli_write(outcome: int, has_itemsets: bool, preexisting: bool, x0: int) -> bool:
    """
    pre: 0 <= outcome <= 2
    pre: 33 <= x0 <= 126
    post: _ == True
    """
    _reset(True, False, 0, False, "")
    X = "<x>" + S(x0) + "</x>"
    out_path = "/out/form.xml"
    if preexisting:
        ENV.files[out_path] = "OLD"

    def fake_convert(**kw):
        if outcome == 1:
            raise ov.ODKValidateError("ODK Validate Errors:\nbad")
        if outcome == 2:
            raise PyXFormError("bad form")
        kw["warnings"].append("w")
        return xx.ConvertResult(xform=X, warnings=kw["warnings"], itemsets="a,b\n" if has_itemsets else None, _pyxform=None, _survey=None)

    real = xx.convert
    xx.convert = fake_convert
    try:
        try:
            w = xx.xls2xform_convert(xlsform_path="/in/form.xlsx", xform_path=out_path, validate=True, pretty_print=False)
            failed = False
        except (ov.ODKValidateError, PyXFormError):
            failed = True
    finally:
        xx.convert = real
    if failed:
        # no XForm written by this call: the output is absent or still the old content
        if outcome == 0:
            return False
        return ENV.files.get(out_path, None) == ("OLD" if preexisting else None) and "/out/itemsets.csv" not in ENV.files
    if outcome != 0:
        return False
    if ENV.files.get(out_path) != X or w != ["w"]:
        return False
    return ("/out/itemsets.csv" in ENV.files) == has_itemsets


# ---- e: decoding of the validator's output streams (round 3) ---------------------------------------
def c18_decode_stream(n: int, b0: int, b1: int, b2: int) -> bool:
    """
    vpre: 0 <= b0 <= 255 and 0 <= b1 <= 255 and 0 <= b2 <= 255
    vpost: _ == True
    """
    from pyxform.validators.util import decode_stream

    raw = bytes([b0, b1, b2][:n])
    out = decode_stream(raw)  # any exception is a violation: every byte string the validator may print must decode
    if not isinstance(out, str) or len(out) > n or (n > 0 and len(out) == 0):
        return False
    if b0 < 128 and b1 < 128 and b2 < 128:
        return out == S(*[b0, b1, b2][:n])
    return True


specialise(
    "C18",
    "e.decode-stream",
    c18_decode_stream,
    {"n": [1, 2, 3]},
    timeout=300,
    kernel=("pyxform.validators.util:decode_stream",),
    shims=(),
    symbolic="the validator's raw output: 1-3 arbitrary bytes (0..255 each), i.e. valid UTF-8, invalid UTF-8 and legacy code-page output",
    bounds="byte strings of length 1-3 (fixed per instance); decoding never fails and ASCII is preserved",
    weight=20,
)
