"""C10 — defaults and triggered calculations are applied exactly once."""
from __future__ import annotations

from harness import shims
from harness.common import S, build_survey, child_elements, elements, text_of
from harness import seqmodel as M
from vf.registry import ob, specialise

shims.standard()

from pyxform.errors import PyXFormError  # noqa: E402

OUTSIDE = "which default texts the real lexer classifies as dynamic (C lexer, not encodable): the classifier is replaced by a model exact on the harness alphabet ([a-z]{2} static, [a-z]{2}'()' dynamic) and validated by the unshimmed witness replay; nesting deeper than 2 sections"
ASSUMPTIONS = [
    "S11: default_is_dynamic(text, type) -> text.endswith('()') inside CrossHair (exact for the harness alphabet; witnesses re-run with the real lexer)",
    "S1-S4 shims inside CrossHair; witnesses re-run without them",
]
K = (
    "pyxform.question:Question.xml_instance",
    "pyxform.question:Question.xml_control",
    "pyxform.question:Question.nest_set_nodes",
    "pyxform.survey_element:SurveyElement.get_setvalue_node_for_dynamic_default",
    "pyxform.survey_element:SurveyElement.xml_bindings",
    "pyxform.survey:Survey.xml_descendent_bindings",
    "pyxform.section:RepeatingSection.xml_control",
    "pyxform.section:RepeatingSection._dynamic_defaults_helper",
    "pyxform.section:Section.generate_repeating_template",
    "pyxform.builder:SurveyElementBuilder._save_trigger",
    "pyxform.xls2json:workbook_to_json",
)


def _s11():
    if not shims.SYMBOLIC:
        return
    import pyxform.question as q
    import pyxform.survey_element as se
    import pyxform.xls2json as xj

    def model(element_default, element_type=None):
        if not element_default or not isinstance(element_default, str):
            return False
        return element_default.endswith("()")

    for mod in (q, se, xj):
        mod.default_is_dynamic = model
    shims._mark("S11")


_s11()

LAYOUTS = ["", "g", "r", "gg", "gr", "rg", "rr"]


def c10_default(layout: int, dyn: bool, qtype: int, c0: int, c1: int) -> bool:
    """
    vpre: 97 <= c0 <= 122 and 97 <= c1 <= 122
    vpre: 0 <= qtype <= 2
    vpost: _ == True
    """
    kinds = LAYOUTS[layout]
    d = S(c0, c1) + ("()" if dyn else "")
    rows = []
    path = "/data"
    for i, k in enumerate(kinds):
        rows.append({"type": "begin group" if k == "g" else "begin repeat", "name": f"s{i}", "label": "S"})
        path += f"/s{i}"
    t = ["text", "integer", "calculate"][qtype]
    q = {"type": t, "name": "q", "label": "Q", "default": d}
    rows.append(q)
    rows.append({"type": "text", "name": "z", "label": "Z"})
    for k in reversed(kinds):
        rows.append({"type": "end group" if k == "g" else "end repeat"})
    path += "/q"
    if t == "calculate" and not dyn:
        q["calculation"] = "1"
    survey, _w, _js = build_survey({"survey": rows})
    root = survey.xml()
    prim = child_elements(elements(root, "instance")[0])[0]
    # all copies of the node (primary + template copies)
    copies = [e for e in elements(prim, "q")]
    n_expected = 1
    if "r" in kinds:
        n_expected = 2 if kinds.count("r") == 1 else 2 + (1 if kinds == "rr" else 0)
    svs = [e for e in elements(root) if e.tagName == "setvalue" and e.getAttribute("ref") == path]
    if not dyn:
        for c in copies:
            if text_of(c) != d:
                return False
        if svs:
            return False
        if len(copies) < 1:
            return False
        return True
    for c in copies:
        if text_of(c) != "" or child_elements(c):
            return False
    if len(svs) != 1:
        return False
    sv = svs[0]
    if sv.getAttribute("value") != d:
        return False
    in_repeat = "r" in kinds
    if not in_repeat:
        return sv.parentNode.tagName == "model" and sv.getAttribute("event") == "odk-instance-first-load"
    # nearest enclosing repeat of the question
    depth = len(kinds) - 1 - kinds[::-1].index("r")
    rpath = "/data" + "".join(f"/s{i}" for i in range(depth + 1))
    par = sv.parentNode
    return par.tagName == "repeat" and par.getAttribute("nodeset") == rpath and sv.getAttribute("event") == "odk-instance-first-load odk-new-repeat"


specialise(
    "C10",
    "a.exactly-once",
    c10_default,
    {"layout": list(range(len(LAYOUTS)))},
    timeout=400,
    kernel=K,
    shims=("S1", "S2", "S3", "S4", "S11"),
    symbolic="static/dynamic classification (boolean), question type over {text, integer, calculate}, default text of 2 symbolic letters (+ '()' when dynamic)",
    bounds="section chain around the question fixed per instance over {none, g, r, gg, gr, rg, rr}",
    weight=80,
)


def c10_trigger(ctype: int, order: bool, in_group: bool, c0: int, c1: int) -> bool:
    """
    vpre: (48 <= c0 <= 57 or 97 <= c0 <= 122) and (48 <= c1 <= 57 or 97 <= c1 <= 122)
    vpost: _ == True
    """
    calc = S(c0, c1)
    T = {"type": "text", "name": "t", "label": "T"}
    if ctype == 0:
        C = {"type": "calculate", "name": "c", "calculation": calc, "trigger": "${t}"}
    elif ctype == 1:
        C = {"type": "text", "name": "c", "label": "C", "calculation": calc, "trigger": "${t}"}
    elif ctype == 2:
        C = {"type": "background-geopoint", "name": "c", "trigger": "${t}"}
    else:  # invisible trigger source: must be rejected
        T = {"type": "calculate", "name": "t", "calculation": "1"}
        C = {"type": "calculate", "name": "c", "calculation": calc, "trigger": "${t}"}
    crow = [C]
    cpath = "/data/c"
    if in_group:
        crow = [{"type": "begin group", "name": "g", "label": "G"}, C, {"type": "end group"}]
        cpath = "/data/g/c"
    rows = ([T] + crow) if order else (crow + [T])
    try:
        survey, _w, _js = build_survey({"survey": rows})
        root = survey.xml()
    except PyXFormError:
        return ctype == 3
    if ctype == 3:
        return False
    tag = "odk:setgeopoint" if ctype == 2 else "setvalue"
    acts = [e for e in elements(root) if e.tagName in ("setvalue", "odk:setgeopoint")]
    if len(acts) != 1:
        return False
    a = acts[0]
    if a.tagName != tag or a.getAttribute("event") != "xforms-value-changed" or a.getAttribute("ref") != cpath:
        return False
    if a.parentNode.tagName != "input" or a.parentNode.getAttribute("ref") != "/data/t":
        return False
    if ctype == 2:
        if a.hasAttribute("value"):
            return False
    elif a.getAttribute("value") != calc:
        return False
    b = [e for e in elements(root, "bind") if e.getAttribute("nodeset") == cpath]
    if len(b) != 1 or b[0].hasAttribute("calculate"):
        return False
    return M.closure_violation(root) is None


specialise(
    "C10",
    "b.trigger",
    c10_trigger,
    {"ctype": [0, 1, 2, 3]},
    timeout=400,
    kernel=K,
    shims=("S1", "S2", "S3", "S4", "S11"),
    symbolic="calculation text of 2 symbolic alphanumerics; relative order of trigger and target rows (boolean); target inside a group (boolean)",
    bounds="target type fixed per instance: calculate / text / background-geopoint / invisible trigger source (must be rejected)",
    weight=60,
)


# ---- b': one trigger, two targets ---------------------------------------------------------------------
def c10_two_targets(p_calc2: bool, geo2: bool, order: bool, c0: int, c1: int) -> bool:
    """
    vpre: 97 <= c0 <= 122 and 97 <= c1 <= 122
    vpost: _ == True
    """
    calc = S(c0, c1)
    T = {"type": "text", "name": "t", "label": "T"}
    A = {"type": "calculate", "name": "a", "calculation": calc, "trigger": "${t}"}
    if geo2:
        B = {"type": "background-geopoint", "name": "b", "trigger": "${t}"}
    else:
        B = {"type": "text", "name": "b", "label": "B", "trigger": "${t}"}
        if p_calc2:
            B["calculation"] = calc + "2"
    rows = [T, A, B] if order else [A, B, T]
    survey, _w, _js = build_survey({"survey": rows})
    root = survey.xml()
    acts = [e for e in elements(root) if e.tagName in ("setvalue", "odk:setgeopoint")]
    if len(acts) != 2:
        return False
    a, b = acts
    for x in acts:
        if x.getAttribute("event") != "xforms-value-changed" or x.parentNode.tagName != "input" or x.parentNode.getAttribute("ref") != "/data/t":
            return False
    if a.tagName != "setvalue" or a.getAttribute("ref") != "/data/a" or a.getAttribute("value") != calc:
        return False
    if b.getAttribute("ref") != "/data/b":
        return False
    if geo2:
        return b.tagName == "odk:setgeopoint" and not b.hasAttribute("value")
    if b.tagName != "setvalue":
        return False
    if p_calc2:
        return b.getAttribute("value") == calc + "2"
    return not b.hasAttribute("value")  # no calculation: the action clears the target


specialise(
    "C10",
    "b.two-targets",
    c10_two_targets,
    {"geo2": [False, True]},
    timeout=300,
    kernel=K + ("pyxform.question:Question.nest_set_nodes",),
    shims=("S1", "S2", "S3", "S4", "S11"),
    symbolic="calculation text of 2 symbolic letters on the first target; the second target has its own calculation or none (boolean); rows before/after the trigger (boolean)",
    bounds="one trigger question with two triggered targets (calculate + text, or calculate + background-geopoint fixed per instance): each action carries exactly its own target and value",
    weight=40,
)


# ---- e: numeric literals are single NUMBER tokens (static defaults), decided on the lexer's regexes ----
from vf.registry import ob_e2  # noqa: E402


def number_literal_run(tier, replay_call=None):
    import re
    import time

    import z3

    from pyxform.parsing import expression as ex
    from pyxform.utils import default_is_dynamic
    from vf import e2_regex as R

    def real_ok(w):
        toks, rest = ex.parse_expression(w)
        return rest == "" and len(toks) == 1 and toks[0].name == "NUMBER" and toks[0].value == w and not default_is_dynamic(w, "decimal")

    if tier == "replay":
        w = replay_call["witness"]
        bad = not real_ok(w)
        return {"verdict": "counterexample" if bad else "confirmed", "replayed": bad, "counterexample": replay_call}
    rules = list(ex.LEXER_RULES.items())
    names = [k for k, _v in rules]
    ni = names.index("NUMBER")
    # documented numeric literal: optional sign, digits with optional fraction, or a bare fraction
    ref_src = r"-?([0-9]+(\.[0-9]*)?|\.[0-9]+)"
    ref = R.translate(re.compile(ref_src))
    num = R.translate(re.compile(rules[ni][1]))
    checked, dis = R.validate_translation(re.compile(rules[ni][1]), num)
    if dis:
        return {"verdict": "harness_error", "detail": f"regex translator disagrees with Python re: {dis[:3]}"}
    t0 = time.time()
    out = {"queries": 0, "validated": checked, "extra": {"number_rule": rules[ni][1], "reference": ref_src, "earlier_rules": names[:ni]}}
    v1, w1, _dt = R.check_subset(ref, num, timeout_ms=120000)
    out["queries"] += 1
    bad_w, why = None, ""
    if v1 == "sat":
        bad_w, why = w1, f"numeric literal {w1!r} is not matched by the lexer's NUMBER rule"
    verdicts = [v1]
    anyc = z3.Star(R.ranges_re([(0, R.MAXCP)]))
    for k, src in rules[:ni]:
        if bad_w is not None:
            break
        earlier = R.translate(re.compile(src))
        v2, w2, _dt = R.check_subset(ref, z3.Complement(z3.Concat(earlier, anyc)), timeout_ms=120000)
        out["queries"] += 1
        verdicts.append(v2)
        if v2 == "sat":
            bad_w, why = w2, f"rule {k} (higher priority) matches a prefix of the numeric literal {w2!r}"
    out["solver_s"] = round(time.time() - t0, 3)
    out["samples"] = R.sample(ref, 6)
    if bad_w is not None:
        real = not real_ok(bad_w)
        out.update(verdict="counterexample", counterexample={"witness": bad_w}, replayed=real, detail=why + "; default_is_dynamic/lexer on the real code: " + ("not a single NUMBER token" if real else "accepted"), replay_result={"single_number_token": not real})
        return out
    if all(v == "unsat" for v in verdicts):
        # the language-level claim; Python's leftmost-alternative choice inside the rule is
        # exercised on solver-generated members of the reference language
        for w in out["samples"]:
            if not real_ok(w):
                out.update(verdict="counterexample", counterexample={"witness": w}, replayed=True, detail=f"numeric literal {w!r} is not lexed as one NUMBER token", replay_result={"single_number_token": False})
                return out
        out["verdict"] = "confirmed"
    else:
        out["verdict"] = "unknown"
    return out


ob_e2(
    "C10",
    "e.number-literals",
    number_literal_run,
    timeout=600,
    kernel=("pyxform.parsing.expression:get_lexer_rules", "pyxform.parsing.expression:parse_expression", "pyxform.utils:default_is_dynamic"),
    symbolic="one z3 String over all strings of the numeric literal language -?([0-9]+(\\.[0-9]*)?|\\.[0-9]+), any length",
    bounds="unbounded length; language inclusion in the NUMBER rule and emptiness of the intersection with every higher-priority rule followed by anything (so the literal is one NUMBER token and the default stays static); Python's ordered choice between the alternatives inside the NUMBER rule is checked on solver-generated samples only",
    weight=10,
)


# ---- f: typed defaults with the real classifier (round 3) -------------------------------------------
F_TYPES = ["date", "dateTime", "datetime", "geopoint", "gps", "location", "geotrace", "geoshape", "time", "text", "integer", "decimal"]
F_DEFAULTS = ["2022-03-14", "14-Mar-2022", "10 - 2", "-1", "now()", "a-b", "2022-03-14 - 1", "today()", "x", "1 + 1", "12.5 -7.5 0 0"]


def c10_typed_default(t: int, d: int, in_repeat: bool, x0: int) -> bool:
    """
    vpre: 0 <= d <= 10
    vpre: 33 <= x0 <= 126 and x0 != 36
    vpost: _ == True
    """
    import pyxform.question as q_
    import pyxform.survey_element as se_
    import pyxform.utils as u_
    import pyxform.xls2json as xj_

    dflt = F_DEFAULTS[d]
    rows = []
    path = "/data"
    if in_repeat:
        rows.append({"type": "begin repeat", "name": "r", "label": "R"})
        path += "/r"
    rows.append({"type": F_TYPES[t], "name": "q", "label": "Q", "default": dflt})
    rows.append({"type": "text", "name": "z", "label": "Z"})
    if in_repeat:
        rows.append({"type": "end repeat"})
    path += "/q"
    saved = (q_.default_is_dynamic, se_.default_is_dynamic, xj_.default_is_dynamic)
    q_.default_is_dynamic = se_.default_is_dynamic = xj_.default_is_dynamic = u_.default_is_dynamic  # the real classifier (texts are concrete)
    try:
        survey, _w, _js = build_survey({"survey": rows})
        root = survey.xml()
    finally:
        q_.default_is_dynamic, se_.default_is_dynamic, xj_.default_is_dynamic = saved
    prim = child_elements(elements(root, "instance")[0])[0]
    copies = elements(prim, "q")
    svs = [e for e in elements(root) if e.tagName == "setvalue" and e.getAttribute("ref") == path]
    literal = [c for c in copies if text_of(c) != ""]
    if literal:
        # static: every copy carries the literal, no action
        return len(literal) == len(copies) and all(text_of(c) == dflt for c in copies) and not svs
    # dynamic: exactly one action carrying the expression, instance nodes empty
    return len(svs) == 1 and svs[0].getAttribute("value") == dflt


specialise(
    "C10",
    "f.typed-defaults",
    c10_typed_default,
    {"t": list(range(len(F_TYPES)))},
    reach_if=lambda fx: fx["t"] in (0, 9),
    timeout=300,
    kernel=K + ("pyxform.utils:default_is_dynamic",),
    shims=("S1", "S2", "S3", "S4"),
    symbolic="default text chosen by a symbolic index over 11 concrete texts (ISO dates, hyphenated non-ISO dates, arithmetic, negative numbers, function calls, geopoint literals), inside / outside a repeat (boolean)",
    bounds="question type fixed per instance over 12 type cells incl. alias spellings (datetime, gps, location); the real default_is_dynamic and lexer run (texts concrete); the default is applied exactly once whatever its classification",
    weight=30,
)
