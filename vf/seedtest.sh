#!/bin/bash
# usage: vf/seedtest.sh <seed-id> [property ...]   — apply a seeded mutation to /repo, run the quick
# check(s), undo the mutation straight afterwards.  Results appended to .work/seedtest.log
id=$1; shift
props=${@:-$(echo $id | cut -d- -f1)}
cd /verif
git -C /repo diff --quiet || { echo "/repo not clean"; exit 2; }
git -C /repo apply /verif/seeded/$id/patch.diff || { echo "$id APPLY-FAILED" | tee -a .work/seedtest.log; exit 2; }
for p in $props; do
  s=$(date +%s)
  ./check $p --tier quick > .work/seed_${id}_$p.log 2>&1
  rc=$?
  viol=$(grep -c "^VIOLATION" .work/seed_${id}_$p.log)
  echo "$id check=$p rc=$rc violations=$viol wall=$(( $(date +%s) - s ))s $(grep '^  obligation' .work/seed_${id}_$p.log | head -2 | cut -c1-160 | tr '\n' ' ')" | tee -a .work/seedtest.log
done
git -C /repo checkout -- .
git -C /repo diff --quiet && echo "reverted"
