"""Solver-based checking framework for pyxform (see /verif/DESIGN.md)."""
