"""E2-R: translate a compiled Python regex (its `re._parser` tree, taken from the imported
repo module at run time) into a z3 regular expression.  Language questions only.
Anything outside the supported subset raises Unsupported (-> harness error, never a guess).
"""
from __future__ import annotations

import re
import re._constants as C
import re._parser as P

import z3

MAXCP = 0x2FFFF  # z3's unicode string sort covers U+0000..U+2FFFF; stated as a bound


class Unsupported(Exception):
    pass


def ch(c: int):
    return z3.Re(z3.StringVal(_lit(c)))


def _lit(c: int) -> str:
    return chr(c)


def rng(lo: int, hi: int):
    hi = min(hi, MAXCP)
    if lo > hi:
        return None
    if lo == hi:
        return ch(lo)
    return z3.Range(_lit(lo), _lit(hi))


def union(parts):
    parts = [p for p in parts if p is not None]
    if not parts:
        return z3.Empty(z3.ReSort(z3.StringSort()))
    if len(parts) == 1:
        return parts[0]
    return z3.Union(*parts)


def concat(parts):
    parts = list(parts)
    if not parts:
        return z3.Re(z3.StringVal(""))
    if len(parts) == 1:
        return parts[0]
    return z3.Concat(*parts)


ANY = rng(0, MAXCP)
EPS = z3.Re(z3.StringVal(""))

_CATEGORY = {
    C.CATEGORY_DIGIT: [(48, 57)],  # ASCII digits only: stated (Python \d also matches other Nd)
    C.CATEGORY_SPACE: [(9, 13), (28, 32), (0x85, 0x85), (0xA0, 0xA0), (0x1680, 0x1680), (0x2000, 0x200A), (0x2028, 0x2029), (0x202F, 0x202F), (0x205F, 0x205F), (0x3000, 0x3000)],
    C.CATEGORY_WORD: [(48, 57), (65, 90), (95, 95), (97, 122)],
}


def _class_ranges(items):
    """-> (negate, [(lo,hi)...])"""
    neg = False
    rs = []
    for op, av in items:
        if op is C.NEGATE:
            neg = True
        elif op is C.LITERAL:
            rs.append((av, av))
        elif op is C.RANGE:
            rs.append(av)
        elif op is C.CATEGORY:
            if av in _CATEGORY:
                rs.extend(_CATEGORY[av])
            elif av is C.CATEGORY_NOT_SPACE:
                rs.extend(_complement(_CATEGORY[C.CATEGORY_SPACE]))
            elif av is C.CATEGORY_NOT_DIGIT:
                rs.extend(_complement(_CATEGORY[C.CATEGORY_DIGIT]))
            else:
                raise Unsupported(f"category {av}")
        else:
            raise Unsupported(f"class item {op}")
    return neg, rs


def _complement(rs):
    rs = sorted(rs)
    out = []
    cur = 0
    for lo, hi in rs:
        if lo > cur:
            out.append((cur, lo - 1))
        cur = max(cur, hi + 1)
    if cur <= MAXCP:
        out.append((cur, MAXCP))
    return out


def ranges_re(rs):
    return union(rng(lo, hi) for lo, hi in rs)


def translate(pattern, anchored_fullmatch=True):
    """z3 Re for { s | pattern.match(s) consumes all of s } — `^`/`$` handled; a trailing
    `$` additionally admits one final newline (Python semantics), made explicit."""
    if isinstance(pattern, re.Pattern):
        flags = pattern.flags
        pattern = pattern.pattern
    else:
        flags = 0
    if flags & (re.I | re.M | re.S | re.X) :
        raise Unsupported(f"flags {flags}")
    tree = P.parse(pattern, flags)
    return _seq(list(tree))


def _seq(items):
    parts = []
    for i, (op, av) in enumerate(items):
        if op is C.AT:
            if av is C.AT_BEGINNING and i == 0:
                continue
            if av is C.AT_END and i == len(items) - 1:
                parts.append(z3.Union(EPS, ch(10)))
                continue
            raise Unsupported(f"anchor {av} at position {i}")
        parts.append(_node(op, av))
    return concat(parts)


def _node(op, av):
    if op is C.LITERAL:
        if av > MAXCP:
            raise Unsupported("literal beyond z3 char range")
        return ch(av)
    if op is C.NOT_LITERAL:
        return ranges_re(_complement([(av, av)]))
    if op is C.ANY:
        return ranges_re(_complement([(10, 10)]))
    if op is C.IN:
        neg, rs = _class_ranges(av)
        if neg:
            rs = _complement(rs)
        return ranges_re(rs)
    if op is C.BRANCH:
        return union(_seq(list(alt)) for alt in av[1])
    if op is C.SUBPATTERN:
        return _seq(list(av[3]))
    if op in (C.MAX_REPEAT, C.MIN_REPEAT):
        lo, hi, sub = av
        r = _seq(list(sub))
        if hi is C.MAXREPEAT:
            if lo == 0:
                return z3.Star(r)
            if lo == 1:
                return z3.Plus(r)
            return z3.Concat(*([r] * lo + [z3.Star(r)]))
        return z3.Loop(r, lo, hi)
    raise Unsupported(f"op {op}")


def check_subset(a, b, timeout_ms=60000):
    """Decide L(a) ⊆ L(b).  Returns (verdict, witness, seconds)."""
    import time

    s = z3.String("s")
    sol = z3.Solver()
    sol.set("timeout", timeout_ms)
    sol.add(z3.InRe(s, a), z3.Not(z3.InRe(s, b)))
    t0 = time.time()
    r = sol.check()
    dt = time.time() - t0
    if str(r) == "unsat":
        return "unsat", None, dt
    if str(r) == "sat":
        w = sol.model()[s]
        return "sat", _z3str(w), dt
    return "unknown", None, dt


def _z3str(v) -> str:
    s = v.as_string()
    # z3 escapes non-ASCII as \u{XXXX}
    return re.sub(r"\\u\{([0-9a-fA-F]+)\}", lambda m: chr(int(m.group(1), 16)), s)


def sample(a, n=5, timeout_ms=10000):
    """n distinct members of L(a) (for translator validation against Python re)."""
    s = z3.String("s")
    sol = z3.Solver()
    sol.set("timeout", timeout_ms)
    sol.add(z3.InRe(s, a))
    out = []
    for _ in range(n):
        if str(sol.check()) != "sat":
            break
        w = sol.model()[s]
        out.append(_z3str(w))
        sol.add(s != w)
    return out


def validate_translation(pattern, zre, n=6):
    """Differential check translator vs Python `re`: members of the z3 language must match,
    sampled non-members must not.  Returns (#checked, [disagreements])."""
    bad = []
    checked = 0
    for w in sample(zre, n):
        checked += 1
        if pattern.match(w) is None or pattern.match(w).end() != len(w):
            bad.append(("z3-member-not-matched", w))
    s = z3.String("s")
    sol = z3.Solver()
    sol.set("timeout", 10000)
    sol.add(z3.Not(z3.InRe(s, zre)), z3.Length(s) <= 3, z3.Length(s) >= 1)
    for _ in range(n):
        if str(sol.check()) != "sat":
            break
        wv = sol.model()[s]
        w = _z3str(wv)
        checked += 1
        m = pattern.match(w)
        if m is not None and m.end() == len(w):
            bad.append(("z3-nonmember-matched", w))
        sol.add(s != wv)
    return checked, bad
