"""Run the pinned test suite and check every BASELINE stable_pass test still passes."""
import json
import os
import subprocess
import sys
import tempfile
import xml.etree.ElementTree as ET

base = json.load(open("/root/.vp/BASELINE.json"))
os.makedirs("/verif/.work", exist_ok=True)
fd, path = tempfile.mkstemp(suffix=".xml", dir="/verif/.work")
os.close(fd)
env = dict(os.environ)
env.pop("PYXFORM_VERIF", None)
subprocess.run(
    ["/venv/bin/python", "-m", "pytest", "-q", "-p", "no:cacheprovider", "--timeout=900", "--continue-on-collection-errors", f"--junitxml={path}"],
    cwd="/repo", env=env, stdout=subprocess.DEVNULL, stderr=subprocess.DEVNULL,
)
passed = set()
for tc in ET.parse(path).getroot().iter("testcase"):
    if not any(c.tag in ("failure", "error", "skipped") for c in tc):
        passed.add(f"{tc.get('classname')}::{tc.get('name')}")
os.unlink(path)
missing = [t for t in base["stable_pass"] if t not in passed]
print(f"stable_pass={len(base['stable_pass'])} passing_now={len(base['stable_pass']) - len(missing)}")
for t in missing[:20]:
    print("NOT PASSING:", t)
sys.exit(1 if missing else 0)
