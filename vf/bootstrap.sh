#!/bin/bash
# Build /verif/.venv offline: /venv's python + overlay .pth (→ /venv site-packages, /repo) + crosshair-tool, z3-solver.
set -e
cd /verif
if [ -x .venv/bin/python ] && .venv/bin/python -c "import crosshair, z3, pyxform" 2>/dev/null; then exit 0; fi
exec 9>/verif/.venv.lock
flock 9
if [ -x .venv/bin/python ] && .venv/bin/python -c "import crosshair, z3, pyxform" 2>/dev/null; then exit 0; fi
rm -rf .venv
/venv/bin/python -m venv .venv
SP=$(.venv/bin/python -c "import sysconfig;print(sysconfig.get_paths()['purelib'])")
printf "import site; site.addsitedir('/venv/lib/python3.12/site-packages')\n/repo\n" > "$SP/_vf_overlay.pth"
PIP_NO_INDEX=1 .venv/bin/pip install -q --no-index --find-links /opt/veriftools/wheels crosshair-tool z3-solver >&2
.venv/bin/python -c "import crosshair, z3, pyxform"
