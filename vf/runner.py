"""Obligation scheduler, verdict logic, known-finding handling, evidence writer."""
from __future__ import annotations

import concurrent.futures as cf
import hashlib
import importlib
import inspect
import json
import os
import subprocess
import sys
import time
from typing import Any, Dict, List, Optional

VERIF = "/verif"
PY = os.path.join(VERIF, ".venv", "bin", "python")
EXIT_OK, EXIT_VIOLATION, EXIT_INCONCLUSIVE = 0, 1, 3


def _run_json(cmd: List[str], wall: float, env_extra: Optional[dict] = None) -> Dict[str, Any]:
    env = dict(os.environ)
    env["PYTHONPATH"] = VERIF + os.pathsep + env.get("PYTHONPATH", "")
    env["PYTHONHASHSEED"] = env.get("PYTHONHASHSEED", "0")
    env.pop("PYXFORM_VERIF", None)
    if env_extra:
        env.update(env_extra)
    t0 = time.time()
    try:
        p = subprocess.run(cmd, capture_output=True, text=True, timeout=wall, env=env, cwd=VERIF)
    except subprocess.TimeoutExpired as e:
        return {"verdict": "timeout", "wall_s": round(time.time() - t0, 2), "stderr": (e.stderr or "")[-800:] if isinstance(e.stderr, str) else ""}
    for line in reversed(p.stdout.splitlines()):
        if line.startswith("@@VF@@ "):
            try:
                d = json.loads(line[7:])
                d.setdefault("wall_s", round(time.time() - t0, 2))
                return d
            except json.JSONDecodeError:
                break
    return {
        "verdict": "harness_error",
        "wall_s": round(time.time() - t0, 2),
        "rc": p.returncode,
        "stderr": p.stderr[-1500:],
        "stdout": p.stdout[-500:],
    }


def crosshair_job(modname: str, key: str, mode: str, timeout: float, per_path: Optional[float], setorder: bool = False):
    cmd = [PY, "-m", "vf.worker", modname, key, mode, str(timeout), str(per_path) if per_path else "-"]
    return _run_json(cmd, wall=timeout * 2.0 + 90, env_extra={"VF_SETORDER": "1"} if setorder else None)


def replay_job(modname: str, key: str, call: dict):
    cmd = [PY, "-m", "vf.replay", modname, key, json.dumps(call)]
    return _run_json(cmd, wall=300)


def e2_job(modname: str, key: str, tier: str, timeout: float):
    cmd = [PY, "-m", "vf.e2worker", modname, key, tier]
    return _run_json(cmd, wall=timeout * 1.5 + 60)


def source_hashes(kernel) -> Dict[str, str]:
    """sha1 of the current source of each encoded repo function (regenerated every run)."""
    out = {}
    for q in kernel:
        try:
            modname, _, attr = q.partition(":")
            mod = importlib.import_module(modname)
            obj = mod
            for part in attr.split("."):
                obj = getattr(obj, part)
            obj = getattr(obj, "__wrapped__", obj)
            src = inspect.getsource(obj)
            out[q] = hashlib.sha1(src.encode()).hexdigest()[:12]
        except Exception as e:  # noqa: BLE001
            out[q] = f"unavailable({type(e).__name__})"
    return out


def load_known() -> List[dict]:
    p = os.path.join(VERIF, "known_findings.json")
    if not os.path.exists(p):
        return []
    return json.load(open(p))["findings"]


class Result:
    def __init__(self, o):
        self.o = o
        self.main: Dict[str, Any] = {}
        self.reach: Dict[str, Any] = {}
        self.replay: Optional[Dict[str, Any]] = None
        self.reach_replay: Optional[Dict[str, Any]] = None
        self.status = "pending"  # discharged | known | violation | inconclusive | harness_error
        self.detail = ""
        self.known_id: Optional[str] = None
        self.replay_path: Optional[str] = None


def run_property(prop: str, tier: str, seed: int, jobs: int, only: Optional[str] = None) -> int:
    t_start = time.time()
    sys.path.insert(0, VERIF)
    sys.path.insert(0, os.environ.get("VF_REPO", "/repo"))
    modname = f"harness.{prop}"
    os.environ["VF_SYMBOLIC"] = "0"
    mod = importlib.import_module(modname)
    from vf.registry import for_property

    obs = for_property(prop, tier)
    if only:
        obs = [o for o in obs if only in o.oid]
    if not obs:
        print(f"no obligations registered for {prop} at tier {tier}")
        return EXIT_INCONCLUSIVE
    known = [k for k in load_known() if k["property"] == prop and k.get("status") == "known"]
    scale = float(os.environ.get("VF_TIMEOUT_SCALE", "2"))  # registered time-outs are measured x ~1.5-3 on an idle machine; the factor absorbs a loaded or slower host
    results = {o.key: Result(o) for o in obs}

    # schedule: heaviest first; main and twin of every obligation are separate jobs
    tasks = []
    for o in sorted(obs, key=lambda x: -x.weight):
        if o.engine.startswith("E2"):
            tasks.append((o, "e2"))
        else:
            tasks.append((o, "main"))
            if o.reach:
                tasks.append((o, "reach"))
    with cf.ThreadPoolExecutor(max_workers=jobs) as ex:
        futs = {}
        for o, mode in tasks:
            if mode == "e2":
                f = ex.submit(e2_job, modname, o.key, tier, o.timeout * scale)
            else:
                to = o.timeout * scale if mode == "main" else min(o.timeout * scale, 120.0)
                f = ex.submit(crosshair_job, modname, o.key, mode, to, o.per_path_timeout, o.setorder and mode == "main")
            futs[f] = (o, mode)
        for f in cf.as_completed(futs):
            o, mode = futs[f]
            r = results[o.key]
            try:
                d = f.result()
            except Exception as e:  # noqa: BLE001
                d = {"verdict": "harness_error", "stderr": repr(e)}
            if mode == "reach":
                r.reach = d
            else:
                r.main = d
            tag = d.get("verdict")
            print(f"  [{o.key}:{mode}] {tag} paths={d.get('paths', d.get('queries', '-'))} wall={d.get('wall_s')}s", flush=True)

    # post-process: replay witnesses / counterexamples concretely, without symbolic shims
    violations = []
    known_lines = []
    for o in obs:
        r = results[o.key]
        _judge(modname, o, r, known, prop)
        if r.status == "violation":
            violations.append(r)
        elif r.status == "known":
            known_lines.append(r)

    by_id: Dict[str, list] = {}
    for r in known_lines:
        by_id.setdefault(r.known_id, []).append(r)
    for kid, rs in by_id.items():  # one line per listed finding
        where = ", ".join(x.o.key for x in rs[:3]) + (f" (+{len(rs) - 3} more obligations)" if len(rs) > 3 else "")
        print(f"KNOWN-FINDING: property={prop} {kid}: {rs[0].detail} [reproduced by {where}]")
    for r in violations:
        print(f"VIOLATION property={prop} replay={r.replay_path}")
        print(f"  obligation {r.o.key}: {r.detail}")
    inconclusive = [r for r in results.values() if r.status in ("inconclusive", "harness_error")]
    for r in inconclusive:
        print(f"INCONCLUSIVE {r.o.key}: {r.status}: {r.detail}")

    write_evidence(prop, tier, seed, list(results.values()), time.time() - t_start, mod)
    if violations:
        return EXIT_VIOLATION
    if inconclusive:
        return EXIT_INCONCLUSIVE
    print(f"OK property={prop} tier={tier} obligations={len(obs)} wall={time.time() - t_start:.0f}s")
    return EXIT_OK


def _first_cex(d: dict):
    for m in d.get("messages", []):
        if m.get("state") in ("POST_FAIL", "EXEC_ERR", "POST_ERR"):
            return m
    return None


def _judge(modname, o, r: Result, known, prop):
    d = r.main
    v = d.get("verdict")
    if o.engine.startswith("E2"):
        _judge_e2(o, r, known, prop)
        return
    # reachability twin first: it validates harness+shims against the unmodified code
    reach_ok = True
    if o.reach:
        rv = r.reach.get("verdict")
        cm = _first_cex(r.reach) if rv == "counterexample" else None
        if not cm or not cm.get("call") or "args" not in (cm.get("call") or {}):
            reach_ok = False
            r.detail = f"reachability twin not refuted ({rv}): " + "; ".join(m.get("message", "")[:160] for m in r.reach.get("messages", []))[:400] + (r.reach.get("stderr", "")[-300:])
        else:
            rr = replay_job(modname, o.key, cm["call"])
            r.reach_replay = {"call": cm["call"], "result": rr}
            if not rr.get("ok"):
                # witness says "returns True" under CrossHair but the unshimmed code disagrees
                if "raises" in (cm["call"].get("returns") or "") or "raises" in cm.get("message", "")[:40]:
                    reach_ok = True  # twin refuted via an exception path: main verdict decides
                elif o.setorder and "distinct outputs over PYTHONHASHSEED" in str(rr.get("returns")):
                    # the witness form itself converts to different bytes under different real hash
                    # seeds: a violation demonstrated on the real code by the concrete replay (found by
                    # the replay, not by the solver: the order-dependent set is outside the S8 model)
                    r.status = "violation"
                    r.detail = f"hash-seed replay of the witness form through convert(): {rr.get('returns')} (not found by the set-order model; demonstrated concretely)"
                    r.replay = {"call": cm["call"], "result": rr, "message": "witness form is hash-seed dependent"}
                    r.replay_path = _write_replay(prop, o, cm["call"], rr, {"message": r.detail})
                    return
                else:
                    reach_ok = False
                    r.detail = f"witness does not replay without shims: {cm['call']} -> {rr.get('returns')} {rr.get('exception')}"
    if v == "confirmed":
        if reach_ok:
            r.status = "discharged"
            if o.expect == "known":
                # a listed finding was expected here but the obligation now confirms
                r.detail = "expected known finding no longer reproduces (treated as discharged)"
        else:
            r.status = "harness_error" if "does not replay" in r.detail else "inconclusive"
        return
    if v == "counterexample":
        cm = _first_cex(d)
        call = (cm or {}).get("call")
        if not call or "args" not in call:
            r.status = "harness_error"
            r.detail = f"counterexample not parseable: {(cm or {}).get('message', '')[:300]}"
            return
        rr = replay_job(modname, o.key, call)
        r.replay = {"call": call, "result": rr, "message": cm.get("message", "")[:500]}
        if rr.get("ok") is not False or rr.get("verdict") in ("harness_error", "timeout"):
            r.status = "harness_error"
            r.detail = f"counterexample does not reproduce on the unmodified code: {call} -> {rr.get('returns')}"
            return
        # reproduced: known or new?
        kid = None
        if o.classifier is not None:
            try:
                kid = o.classifier(call, rr)
            except Exception as e:  # noqa: BLE001
                kid = None
                r.detail = f"classifier error {e!r}; "
        listed = {k["id"]: k for k in known}
        if kid and kid in listed:
            r.status = "known"
            r.known_id = kid
            r.detail = listed[kid]["what"]
            return
        r.status = "violation"
        r.detail += f"{cm.get('message', '')[:300]} | replay: returns={rr.get('returns')} exc={rr.get('exception')}"
        r.replay_path = _write_replay(prop, o, call, rr, cm)
        return
    r.status = "inconclusive" if v in ("inconclusive", "pre_unsat", "timeout") else "harness_error"
    r.detail = f"{v}: " + "; ".join(m.get("message", "")[:200] for m in d.get("messages", []))[:500] + (d.get("stderr") or "")[-600:]


def _judge_e2(o, r: Result, known, prop):
    d = r.main
    v = d.get("verdict")
    if v == "confirmed":
        r.status = "discharged"
        return
    if v == "counterexample":
        cex = d.get("counterexample", {})
        if not d.get("replayed"):
            r.status = "harness_error"
            r.detail = f"E2 counterexample did not replay on the real code: {cex}"
            return
        kid = d.get("known_id")
        listed = {k["id"]: k for k in known}
        if kid and kid in listed:
            r.status = "known"
            r.known_id = kid
            r.detail = listed[kid]["what"]
            return
        r.status = "violation"
        r.detail = d.get("detail", "")[:400]
        r.replay_path = _write_replay(prop, o, cex, d.get("replay_result", {}), {"message": d.get("detail", "")})
        return
    r.status = "inconclusive" if v in ("unknown", "timeout", "inconclusive") else "harness_error"
    r.detail = f"{v}: {d.get('detail', '')} {(d.get('stderr') or '')[-600:]}"


def _write_replay(prop, o, call, rr, cm) -> str:
    dg = hashlib.sha1(json.dumps(call, sort_keys=True, default=str).encode()).hexdigest()[:10]
    d = os.path.join(VERIF, "replays", prop)
    os.makedirs(d, exist_ok=True)
    path = os.path.join(d, f"{o.oid}-{dg}.json")
    json.dump(
        {
            "property": prop,
            "obligation": o.key,
            "module": f"harness.{prop}",
            "engine": o.engine,
            "call": call,
            "solver_message": cm.get("message", "")[:800],
            "concrete_result": rr,
            "how_to_replay": f"./check {prop} --replay {path}",
        },
        open(path, "w"),
        indent=1,
        default=str,
    )
    return path


def write_evidence(prop, tier, seed, results: List[Result], wall, mod):
    paths = sum(int(r.main.get("paths", 0) or 0) + int(r.reach.get("paths", 0) or 0) for r in results)
    queries = sum(int(r.main.get("queries", 0) or 0) for r in results)
    decisions = 0
    for r in results:
        for d in (r.main, r.reach):
            st = d.get("stats") or {}
            decisions += int(st.get("num_decisions", 0) or 0) + int(st.get("solver_checks", 0) or 0)
    validated = sum(1 for r in results if r.reach_replay and r.reach_replay["result"].get("ok")) + sum(
        1 for r in results if r.replay
    ) + sum(int(r.main.get("validated", 0) or 0) for r in results)
    obl = []
    samples = []
    kernel_all = set()
    for r in results:
        o = r.o
        kernel_all.update(o.kernel)
        e = {
            "id": o.key,
            "engine": o.engine,
            "status": r.status,
            "verdict": r.main.get("verdict"),
            "paths": r.main.get("paths"),
            "queries": r.main.get("queries"),
            "cpu_s": r.main.get("cpu_s"),
            "wall_s": r.main.get("wall_s"),
            "solver_s": r.main.get("solver_s"),
            "timeout_s": o.timeout,
            "symbolic": o.symbolic,
            "bounds": o.bounds,
            "shims": list(o.shims),
            "kernel": list(o.kernel),
            "twin": r.reach.get("verdict") if o.reach else None,
            "witness": (r.reach_replay or {}).get("call"),
            "witness_replays_without_shims": (r.reach_replay or {}).get("result", {}).get("ok") if r.reach_replay else None,
            "detail": r.detail[:400] if r.detail else "",
        }
        if r.main.get("extra"):
            e["extra"] = r.main["extra"]
        obl.append(e)
        if r.reach_replay and len(samples) < 12:
            samples.append({"obligation": o.key, "witness_call": r.reach_replay["call"]})
        if r.main.get("samples") and len(samples) < 16:
            samples.append({"obligation": o.key, "cases": r.main["samples"][:3]})
    if not samples:
        samples = [{"obligation": r.o.key, "symbolic": r.o.symbolic} for r in results[:3]]
    hashes = source_hashes(sorted(kernel_all))
    n_dis = sum(1 for r in results if r.status == "discharged")
    ev = {
        "property_id": prop,
        "tier": tier,
        "seed": seed,
        "level": "model_checking",
        "coverage": {
            "states": max(paths + queries, 1),
            "transitions": max(decisions + paths + queries, 1),
            "traces_validated_against_impl": validated,
            "samples": samples,
            "obligations": len(results),
            "discharged": n_dis,
            "known_findings": sum(1 for r in results if r.status == "known"),
            "inconclusive": sum(1 for r in results if r.status in ("inconclusive", "harness_error")),
            "explanation": "states = symbolic execution paths explored by CrossHair (each decided by z3 over all values of the symbolic inputs) plus direct z3 queries; transitions = solver branch decisions; traces_validated = witnesses/counterexamples re-executed on the unmodified code without shims.",
            "functions_encoded": hashes,
            "obligation_results": obl,
            "outside_claim": getattr(mod, "OUTSIDE", ""),
            "solver": "z3 (via crosshair-tool 0.0.110 / z3-solver wheel)",
            "exhaustive": False,
        },
        "assumptions": list(getattr(mod, "ASSUMPTIONS", [])),
        "wall_s": round(wall, 2),
        "violations": sum(1 for r in results if r.status == "violation"),
    }
    if tier == "thorough":
        from vf.registry import thorough_selection

        _sel, not_run = thorough_selection(prop)
        ev["coverage"]["defined_not_run"] = {
            "count": len(not_run),
            "why": "deeper obligations that exceed the per-property CPU budget of the registered thorough command (VF_THOROUGH_BUDGET / VF_THOROUGH_MAX_TIMEOUT raise it) or are listed in vf/thorough_excluded.json; outside the claim",
            "ids": [o.key for o in not_run][:400],
        }
    os.makedirs(os.path.join(VERIF, "evidence"), exist_ok=True)
    json.dump(ev, open(os.path.join(VERIF, "evidence", f"{prop}.json"), "w"), indent=1, default=str)


def replay_file(prop: str, path: str) -> int:
    d = json.load(open(path))
    if d.get("engine", "").startswith("E2"):
        r = _run_json([PY, "-m", "vf.e2worker", d["module"], d["obligation"], "replay", json.dumps(d["call"])], wall=300)
        bad = r.get("replayed")
    else:
        r = replay_job(d["module"], d["obligation"], d["call"])
        bad = r.get("ok") is False
    print(json.dumps(r, indent=1))
    if bad:
        print(f"VIOLATION property={prop} replay={path}")
        return EXIT_VIOLATION
    print("replay: the recorded counterexample no longer fails")
    return EXIT_OK
