"""Run one CrossHair obligation (or its reachability twin) in this process.

usage: python -m vf.worker <harness module> <obligation key> main|reach <timeout> [per_path]
Prints one line `@@VF@@ <json>` with the verdict.
"""
from __future__ import annotations

import collections
import json
import os
import re
import sys
import time
import types


def _twin(fn):
    """Reachability twin: same preconditions, body calls the obligation, postcondition
    negated, so that any normal `True` return refutes it (CrossHair reads contracts from
    source text, hence the twin is generated as source)."""
    import inspect
    import linecache

    sig = inspect.signature(fn)
    params = ", ".join(f"{n}: {getattr(p.annotation, '__name__', 'int')}" for n, p in sig.parameters.items())
    args = ", ".join(sig.parameters)
    pres = [ln.strip() for ln in (fn.__doc__ or "").splitlines() if ln.strip().startswith("pre:")]
    raises = [ln.strip() for ln in (fn.__doc__ or "").splitlines() if ln.strip().startswith("raises:")]
    doc = "\n".join("    " + x for x in pres + raises + ["post: not (_ == True)"])
    name = fn.__name__
    src = f'def {name}({params}) -> bool:\n    """\n{doc}\n    """\n    return __vf_fn({args})\n'
    fname = f"<vf-twin {name}>"
    linecache.cache[fname] = (len(src), None, src.splitlines(True), fname)
    g = dict(fn.__globals__)
    g["__vf_fn"] = fn
    ns = {}
    exec(compile(src, fname, "exec"), g, ns)
    tw = ns[name]
    tw.__module__ = fn.__module__
    return tw


CALL_RE = re.compile(r"when calling (\w+)\((.*?)\)(?: \(which (?:returns|raises) (.*)\))?$", re.S)


def parse_call(msg: str):
    m = CALL_RE.search(msg.strip())
    if not m:
        return None
    argsrc = m.group(2)
    try:
        import ast

        node = ast.parse(f"f({argsrc})", mode="eval").body
        args = [ast.literal_eval(a) for a in node.args]
        kwargs = {k.arg: ast.literal_eval(k.value) for k in node.keywords}
    except Exception:
        return {"raw": argsrc, "returns": m.group(3)}
    return {"args": args, "kwargs": kwargs, "returns": m.group(3)}


def _extend_crosshair():
    """Engine tuning (not a change to the code under test): CPython 3.12 compiles
    `x in {"a", "b"}` with a constant set to a *frozenset* constant, which CrossHair's
    ContainmentInterceptor does not de-optimise, so a symbolic `x` would be hashed and
    thereby realised.  Treat frozenset like set (linear, ==-based membership)."""
    from crosshair import opcode_intercept as oi
    from crosshair.simplestructs import LinearSet, ShellMutableSet
    from crosshair.tracers import frame_stack_read, frame_stack_write
    from crosshair.util import CrossHairValue

    orig = oi.ContainmentInterceptor.trace_op

    def trace_op(self, frame, codeobj, codenum):
        item = frame_stack_read(frame, -2)
        if isinstance(item, CrossHairValue):
            container = frame_stack_read(frame, -1)
            if type(container) is frozenset:
                frame_stack_write(frame, -1, ShellMutableSet(LinearSet(container)))
                return
        return orig(self, frame, codeobj, codenum)

    oi.ContainmentInterceptor.trace_op = trace_op

    if os.environ.get("VF_SETORDER") == "1":
        _install_set_order_model()


def _install_set_order_model():
    """S8: PYTHONHASHSEED model.  Sets created by pyxform code (set(...) calls and set
    comprehensions, which CrossHair represents as list-backed ShellMutableSet objects) are
    iterated in a solver-chosen order (rotation + optional swap of the first two) whenever the
    iteration is started from a frame of /repo/pyxform: Python promises nothing about set order.
    (The C tracer cannot intercept GET_ITER, so iteration of constant frozenset literals is
    not covered; those are membership tests in pyxform.)"""
    import sys as _sys

    from crosshair import opcode_intercept as oi
    from crosshair.simplestructs import ShellMutableSet
    from crosshair.statespace import context_statespace
    from crosshair.tracers import NoTracing, frame_stack_read, frame_stack_write
    from crosshair.util import CrossHairValue

    orig_iter = ShellMutableSet.__iter__

    def __iter__(self):
        f = _sys._getframe(1)
        from vf import setorder

        if not setorder.ACTIVE or not f.f_code.co_filename.startswith(os.environ.get("VF_REPO", "/repo") + "/pyxform"):
            return orig_iter(self)
        items = list(orig_iter(self))
        n = len(items)
        if 2 <= n <= 5:  # larger sets in pyxform are membership tables (bound, stated)
            with NoTracing():
                space = context_statespace()
                k = 0
                for r in range(1, n):
                    if space.smt_fork(desc=f"setrot{r}_"):
                        k = r
                        break
                swap = n >= 3 and space.smt_fork(desc="setswap_")
            items = items[k:] + items[:k]
            if swap:
                items[0], items[1] = items[1], items[0]
        return iter(items)

    ShellMutableSet.__iter__ = __iter__

    orig_add = oi.SetAddInterceptor.trace_op

    def trace_op(self, frame, codeobj, codenum):
        # set comprehensions in pyxform code: always use the list-backed representation
        if frame.f_code.co_filename.startswith(os.environ.get("VF_REPO", "/repo") + "/pyxform"):
            frame_op_arg = oi.frame_op_arg

            set_offset = -(frame_op_arg(frame) + 1)
            set_obj = frame_stack_read(frame, set_offset)
            item = frame_stack_read(frame, -1)
            if type(set_obj) is set and not isinstance(item, CrossHairValue):
                frame_stack_write(frame, set_offset, ShellMutableSet(set_obj))
        return orig_add(self, frame, codeobj, codenum)

    oi.SetAddInterceptor.trace_op = trace_op


def _wrap_module_sets():
    """S8 (continued): module-level set / frozenset constants of pyxform modules with 2-5
    elements are re-bound to the list-backed representation, so that a `for x in CONSTANT_SET`
    in pyxform code is iterated in a solver-chosen order too (membership tests are unaffected)."""
    from crosshair.simplestructs import LinearSet, ShellMutableSet

    n = 0
    for name, mod in list(sys.modules.items()):
        if name == "pyxform" or name.startswith("pyxform."):
            for k, v in list(vars(mod).items()):
                if type(v) in (set, frozenset) and 2 <= len(v) <= 5 and all(type(x) in (str, int) for x in v):
                    setattr(mod, k, ShellMutableSet(LinearSet(sorted(v, key=repr))))
                    n += 1
    return n


def main(argv):
    modname, key, mode, timeout = argv[0], argv[1], argv[2], float(argv[3])
    per_path = float(argv[4]) if len(argv) > 4 and argv[4] not in ("", "-") else None
    os.environ["VF_SYMBOLIC"] = "1"
    sys.path.insert(0, "/verif")
    t0 = time.time()
    from crosshair.auditwall import engage_auditwall
    from crosshair.core_and_libs import analyze_function, run_checkables
    from crosshair.options import AnalysisOptionSet
    from crosshair.pure_importer import prefer_pure_python_imports
    from crosshair.statespace import MessageType

    _extend_crosshair()
    out = {"key": key, "mode": mode}
    with prefer_pure_python_imports():
        import importlib

        importlib.import_module(modname)
        from vf.registry import REG

        o = REG[key]
        fn = o.fn
        if os.environ.get("VF_SETORDER") == "1":
            out["wrapped_module_sets"] = _wrap_module_sets()
        if mode == "reach":
            fn = _twin(fn)
        engage_auditwall(())
        stats = collections.Counter()
        kw = dict(per_condition_timeout=timeout, report_all=True, stats=stats)
        if per_path is not None:
            kw["per_path_timeout"] = per_path
        opts = AnalysisOptionSet(**kw)
        c0 = time.process_time()
        msgs = run_checkables(analyze_function(fn, opts))
        cpu = time.process_time() - c0
    out["messages"] = []
    verdict = "inconclusive"
    states = [m.state for m in msgs]
    for m in msgs:
        d = {"state": m.state.name, "message": m.message, "file": m.filename, "line": m.line}
        if m.state in (MessageType.POST_FAIL, MessageType.EXEC_ERR, MessageType.POST_ERR):
            d["call"] = parse_call(m.message)
            d["traceback"] = (m.traceback or "")[-1500:]
        out["messages"].append(d)
    if any(s in (MessageType.POST_FAIL, MessageType.EXEC_ERR, MessageType.POST_ERR) for s in states):
        verdict = "counterexample"
    elif states and all(s == MessageType.CONFIRMED for s in states):
        verdict = "confirmed"
    elif any(s == MessageType.PRE_UNSAT for s in states):
        verdict = "pre_unsat"
    elif any(s in (MessageType.SYNTAX_ERR, MessageType.IMPORT_ERR) for s in states):
        verdict = "harness_error"
    elif not states:
        verdict = "harness_error"
        out["messages"].append({"state": "NONE", "message": "no conditions found"})
    out["verdict"] = verdict
    out["paths"] = int(stats.get("num_paths", 0))
    out["stats"] = {k: int(v) for k, v in stats.items()}
    out["cpu_s"] = round(cpu, 2)
    out["wall_s"] = round(time.time() - t0, 2)
    sys.stdout.write("\n@@VF@@ " + json.dumps(out) + "\n")
    sys.stdout.flush()


if __name__ == "__main__":
    main(sys.argv[1:])
