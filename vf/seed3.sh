#!/bin/bash
# development helper (round 3): vf/seed3.sh <Cxx>  — verify the sub-agent's change in its scratch worktree
# /tmp/wt3/<Cxx> (demo fails with it / passes without it, pinned suite passes with it), store it under
# seeded/<Cxx>-r3m1, then run the property's quick check against the worktree (VF_REPO override).
p=$1; wt=/tmp/wt3/$p; id=$p-r3m1; out=/verif/seeded/$id
cd $wt || exit 2
mkdir -p /verif/.work $out
git diff -- pyxform > /tmp/wt3/$p.actual.diff
[ -s /tmp/wt3/$p.actual.diff ] || { echo "$id NO-CHANGE-APPLIED"; exit 2; }
cp /tmp/wt3/$p.actual.diff $out/patch.diff
cp _out/demo.py $out/demo.py; cp _out/notes.txt $out/notes.txt 2>/dev/null; cp _out/preexisting.txt $out/preexisting.txt 2>/dev/null
/venv/bin/python _out/demo.py > /tmp/wt3/$p.demo_with.log 2>&1; with=$?
suite=$(/venv/bin/python /tmp/wt3/suite_check.py | head -1)
git apply -R /tmp/wt3/$p.actual.diff
/venv/bin/python _out/demo.py > /tmp/wt3/$p.demo_without.log 2>&1; without=$?
git apply /tmp/wt3/$p.actual.diff
echo "$id demo_with=$with demo_without=$without suite='$suite'" | tee -a /verif/.work/seed3.log
if [ "$with" = 0 ] || [ "$without" != 0 ] || [ "$suite" != "stable_pass=626 passing_now=626" ]; then echo "$id NOT-CONFIRMED" | tee -a /verif/.work/seed3.log; exit 2; fi
[ "$2" = "verify-only" ] && exit 0
cd /verif
s=$(date +%s)
PYTHONPATH=$wt VF_REPO=$wt VF_JOBS=${VF_JOBS:-8} ./check $p --tier quick > .work/r3_first_$p.log 2>&1; rc=$?
git -C /verif checkout -- evidence/$p.json
viol=$(grep -c "^VIOLATION" .work/r3_first_$p.log)
echo "$id FIRST-RUN rc=$rc violations=$viol wall=$(( $(date +%s) - s ))s $(grep '^VIOLATION' .work/r3_first_$p.log | head -2 | cut -c1-200 | tr '\n' ' ')" | tee -a .work/seed3.log
