from __future__ import annotations

import argparse
import os
import sys


def main():
    ap = argparse.ArgumentParser(prog="check")
    ap.add_argument("property")
    ap.add_argument("--tier", default=os.environ.get("VERIF_TIER", "quick"), choices=["quick", "thorough"])
    ap.add_argument("--replay")
    ap.add_argument("--only", help="substring filter on obligation ids (debugging)")
    ap.add_argument("--jobs", type=int, default=int(os.environ.get("VF_JOBS", "16")))
    a = ap.parse_args()
    seed = int(os.environ.get("VERIF_SEED", "0") or 0)
    from vf import runner

    if a.replay:
        sys.exit(runner.replay_file(a.property, a.replay))
    sys.exit(runner.run_property(a.property, a.tier, seed, a.jobs, a.only))


if __name__ == "__main__":
    main()
