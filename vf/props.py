"""Per-property manifest texts.  PROPS: claimed; NOT_APPLICABLE: everything else, with reason."""

_T = "bounded symbolic execution of the real functions (CrossHair/z3), every path condition decided by the solver; counterexamples replayed on the unmodified code"
_NOTE = "Bounded: string lengths, row counts, nesting depth and alphabets as stated per obligation in the evidence file. Trusted base: CPython, crosshair-tool 0.0.110's model of str/list/dict/re, z3; harness shims S1-S4 (identity hash, un-cached pure functions, list-backed xpath map, type-based hashable) validated by re-running every witness without them."

PROPS = {
    "C01": (
        _T + "; regex-language inclusion in z3 for the name guard",
        "Serializer lemma (text/attribute escaping, compact and pretty) decided for every XML Char string up to the length bound; skeleton and name-guard obligations on the real generators.",
        _NOTE,
        "DESIGN.md §3 C01",
    ),
    "C11": (
        _T,
        "Each documented setting is a symbolic tracer string driven through the real workbook_to_json -> builder -> Survey.xml(); the solver shows it lands at its documented place and nowhere else, for every value within the bound and every presence pattern.",
        _NOTE,
        "DESIGN.md §3 C11",
    ),
}

_ALL = [f"C{i:02d}" for i in range(1, 21)]
_PENDING = "no obligation registered yet in this build round; nothing is claimed (planned engine: see DESIGN.md §3)"
NOT_APPLICABLE = {p: _PENDING for p in _ALL if p not in PROPS}
