"""Per-property manifest texts.  PROPS: claimed; NOT_APPLICABLE: everything else, with reason."""

_T = "bounded symbolic execution of the real pyxform functions with CrossHair (z3 decides every path condition over all values of the symbolic inputs); reachability twin per obligation; counterexamples and witnesses replayed on the unmodified code"
_NOTE = (
    "Bounded: string lengths (1-3 symbolic characters per cell, contiguous code point ranges), row counts (3-4 rows), nesting depth (<= 3), "
    "languages (<= 3) as stated per obligation in the evidence file. Trusted base: CPython, crosshair-tool 0.0.110's model of str/list/dict/re, z3; "
    "harness shims S1-S4 (identity hash of elements, un-cached pure functions, list-backed xpath map, type-based hashable), S5 (pure-Python XML parser model in place of expat, "
    "differentially validated), environment stubs named per obligation; every witness and counterexample is re-executed without the symbolic-only shims."
)


def _p(technique_extra, text, ref, note_extra=""):
    return (_T + technique_extra, text, _NOTE + note_extra, ref)


PROPS = {
    "C01": _p(
        "; regex-language inclusion in z3 (regex taken from re._parser of the imported pattern) for the name guard",
        "Serializer lemma (text/attribute escaping, compact and pretty, 10 tree shapes, per-character homomorphism) decided for XML Char strings up to the length bound; XForm skeleton, namespace declarations and name validity decided on whole forms with symbolic titles/names; the NCName guard decided for all strings by language inclusion.",
        "DESIGN.md §3 C01, §8",
        " Known findings F2, F8, F17 are reported as KNOWN-FINDING by dedicated obligations; companions assume the defective inputs away.",
    ),
    "C02": _p(
        "",
        "Closure of every nodeset/ref/repeat/action reference over all row sequences of the bounded vocabulary (incl. generated _count/_other/meta nodes, triggers, dynamic defaults), element names symbolic on fixed layouts, case-insensitive sibling ambiguity with unrelated siblings in between, re-parenting histories.",
        "DESIGN.md §3 C02, §8",
    ),
    "C03": _p(
        "; one obligation per layout skeleton (concrete instantiation), all element names symbolic",
        "For every layout skeleton up to the bound the solver quantifies over all element names: the substituted path is the target's absolute path or a relative path that an independent resolver maps to the target, relative when the target's innermost repeat encloses the referrer; every consumer cell kind decided on all group/repeat kind assignments; unknown/ambiguous names rejected.",
        "DESIGN.md §3 C03, §8",
    ),
    "C04": _p(
        "",
        "All row-kind sequences of length 3 (quick) / 4 (thorough) over the vocabulary against an independent begin/end parser: instance and body shape, template copies, noise rows, nesting chains to depth 3, appearance routing.",
        "DESIGN.md §3 C04, §8",
    ),
    "C05": _p(
        "",
        "Every documented logic column spelling is a tracer routed through the real header processing, builder and bind generation: attribute placement per row, all 64 presence subsets, yes/no normalisation for values of length 2-5, audit parameter binds.",
        "DESIGN.md §3 C05, §8",
    ),
    "C06": _p(
        "; pure-Python XML parser model reads the serialised node back",
        "For 14 text channels the cell text (2-3 symbolic code points incl. XML metacharacters and astral planes) is recovered exactly from the serialised node and never changes the element/attribute structure; text around a ${reference} becomes exactly text/output/text.",
        "DESIGN.md §3 C06, §8",
        " Labels containing 'instance(' and default-text classification go through the C lexer and are outside the claim.",
    ),
    "C07": _p(
        "",
        "All presence patterns of label/hint/guidance/messages/media cells over up to 3 languages, both column orders and three default_language settings: every itext reference (body, bind messages, choice itextId) resolves in every translation, id sets equal, default marking exact; calculate rows, messages with references, choice lists shared/filtered/search().",
        "DESIGN.md §3 C07, §8",
        " Known finding F11 (unlabelled choice in an itext list) is reported as KNOWN-FINDING; its companion assumes every choice labelled.",
    ),
    "C08": _p(
        "",
        "The whole itext block and body of the pattern forms is compared with an independent expected model written from the property statement (cell text per (kind, language), '-' padding, no invented language); header language tokens symbolic at the process_header unit.",
        "DESIGN.md §3 C08, §8",
    ),
    "C09": _p(
        "",
        "Choice-list fidelity with interleaved rows and sparse extra columns (tracers), itemset wiring with independent filters/randomize/seed, or_other, external sources (symbolic file stem) declared once with the conventional URI or rejected on id clash; value/label parameters and file-type defaults of select-from-file; the itemsets CSV equals the sparse external_choices sheet image for select_one_external at 5 nestings (csv.writer modelled, S6).",
        "DESIGN.md §3 C09, §8",
    ),
    "C10": _p(
        "; the lexer-based static/dynamic classifier is replaced by a model exact on the harness alphabet",
        "Static vs dynamic defaults over 7 section chains and 3 question types: exactly-once placement, events and template copies; triggered calculations for calculate/text/background-geopoint targets with symbolic calculation text (incl. truth literals).",
        "DESIGN.md §3 C10, §8",
    ),
    "C11": _p(
        "",
        "Each documented setting is a symbolic tracer driven through the real workbook_to_json -> builder -> Survey.xml(): it lands at its documented place and nowhere else for every value within the bound and every presence pattern; defaults, omit_instanceID spellings, namespaces with/without entities.",
        "DESIGN.md §3 C11, §8",
    ),
    "C12": _p(
        "",
        "Decided at the pure-Python units: typed-cell canonicalisation, empty-run limits (rows 60 / columns 20, windows in quick, full sweep in thorough), trimming, the Markdown reader, CSV row assembly, delivery channel and file-stem fallback (in-memory file table).",
        "DESIGN.md §3 C12, §4, §8",
        " Binary container parsing (xlrd/openpyxl/zip/expat), csv.reader tokenisation and non-integral float rendering are C code: outside the claim, equality of whole conversions across binary containers is NOT decided.",
    ),
    "C13": _p(
        "",
        "Documented header aliases with symbolic case/spacing/language token at process_header; type spelling families, layout noise (column permutations, blank rows, unknown columns, extra sheets) and cell noise on representative forms with symbolic tracers: identical XForm tree and warnings (row numbers shifted by the rows inserted above).",
        "DESIGN.md §3 C13, §4, §8",
        " Whole-form equivalence under arbitrary compositions of transformations is not decided.",
    ),
    "C14": _p(
        "; solver-chosen set iteration orders (hash-seed model); two-thread interleaving model of the shared lexer encoded directly in z3 from the sources of re.Scanner.scan and the tokenizer",
        "Hash-seed independence with every small set iterated by pyxform code permuted by the solver; regeneration and conversion histories with a pure-Python model of the lru caches (S12: CrossHair bypasses functools.lru_cache); module-level set constants included in the set-order model; bounded schedules of two threads in the shared lexer.",
        "DESIGN.md §3 C14, §4, §8",
        " Thread schedules only for the one shared mutable object found (the lexer), statement-level atomicity, 2 threads.",
    ),
    "C15": _p(
        "; pure-Python XML parser model reads both serialisations back",
        "Compact and pretty serialisations of 9 tree shapes with symbolic text/attribute segments (printable ASCII, TAB/LF, U+2028/9) parse to the same document up to white-space-only text in element-only content.",
        "DESIGN.md §3 C15, §8",
    ),
    "C16": _p(
        "; JSON text round trip modelled as a structural copy that rejects non-JSON types",
        "Workbook JSON and survey JSON dumps reload to the same XForm tree and a stable dump for forms with group logic, extra choice columns, translations, parameters, repeats and settings (symbolic tracers, symbolic feature flags).",
        "DESIGN.md §3 C16, §8",
        " Known finding F18 (search() select dumped after xml()) is reported as KNOWN-FINDING.",
    ),
    "C17": _p(
        "",
        "26 catalogued breaking mutations at symbolic sites with symbolic blank-row offsets and offending text: PyXFormError naming the subject and the right row; totality (only PyXFormError) over all 16^3 row sequences of the extended vocabulary and over symbolic strings into parameter/package-name validators.",
        "DESIGN.md §3 C17, §8",
    ),
    "C18": _p(
        "; the file system and the validator process are replaced by an in-memory model with symbolic outcomes",
        "Every combination of validator outcome (return code -3..3, timeout, stderr text, java present, write failure, validate/pretty flags): right exception/warnings and an empty file table afterwards; error cleaner templates with symbolic path segments; CLI flag logic and output writing.",
        "DESIGN.md §3 C18, §4, §8",
        " The real subprocess, watchdog, signals, Java and the jar are outside the claim.",
    ),
    "C19": _p(
        "",
        "All 16 presence combinations of entity_id/create_if/update_if/label with symbolic expressions (with and without custom namespaces) against an independent decision table; save_to placement over 7 row placements with symbolic property names; dataset names; sheet shape.",
        "DESIGN.md §3 C19, §8",
    ),
    "C20": _p(
        "; If-merging symbolic evaluation of levenshtein_distance with havocked loop-carried state (inductive row step) against an independently encoded recurrence",
        "Missing-translation and or_other warnings over all subsets of 8 survey x 3 choices translatable columns; Levenshtein equivalence for all candidate strings by induction on rows; misspelling messages, row-level triggers with symbolic positions and blank-row offsets, IANA tag check.",
        "DESIGN.md §3 C20, §8",
    ),
}

_ALL = [f"C{i:02d}" for i in range(1, 21)]
NOT_APPLICABLE = {p: "no obligation registered" for p in _ALL if p not in PROPS}
