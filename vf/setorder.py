"""Switch for the S8 set-order model (see vf/worker.py:_install_set_order_model)."""
ACTIVE = True
