"""Run one E2 (direct z3) obligation:  python -m vf.e2worker <module> <key> <tier>|replay [json]"""
import importlib
import json
import os
import sys
import time


def main(argv):
    os.environ["VF_SYMBOLIC"] = "0"
    sys.path.insert(0, "/verif")
    sys.path.insert(0, os.environ.get("VF_REPO", "/repo"))
    importlib.import_module(argv[0])
    from vf.registry import REG

    o = REG[argv[1]]
    t0 = time.time()
    if argv[2] == "replay":
        out = o.run("replay", json.loads(argv[3]))
    else:
        out = o.run(argv[2])
    out.setdefault("wall_s", round(time.time() - t0, 2))
    out["key"] = o.key
    sys.stdout.write("\n@@VF@@ " + json.dumps(out, default=str) + "\n")


if __name__ == "__main__":
    main(sys.argv[1:])
