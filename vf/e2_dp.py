"""E2-D: If-merging symbolic evaluator for straight-line integer/list kernels.

Executes a function's AST (from inspect.getsource, i.e. regenerated from the current repo
source on every run) with concrete loop bounds and z3 Int element values; an `if` on a
symbolic condition evaluates both branches and merges the environments with z3.If.
Anything outside the supported subset raises Unsupported (harness error, never a guess).
"""
from __future__ import annotations

import ast
import inspect
import textwrap

import z3


class Unsupported(Exception):
    pass


class _Return(Exception):
    def __init__(self, v):
        self.v = v


def _is_sym(v):
    return isinstance(v, z3.ExprRef)


def _min(vals):
    out = vals[0]
    for v in vals[1:]:
        if _is_sym(out) or _is_sym(v):
            out = z3.If(v < out, v, out)
        else:
            out = min(out, v)
    return out


class Evaluator:
    def __init__(self, fn):
        src = textwrap.dedent(inspect.getsource(fn))
        self.tree = ast.parse(src).body[0]
        if not isinstance(self.tree, ast.FunctionDef):
            raise Unsupported("not a function")
        self.merges = 0
        self.cut = None  # names of list variables to havoc at each outermost-loop iteration
        self.iterations = []  # [{"i": i, "pre": {name: [fresh]}, "post": {name: [expr]}}]
        self._depth = 0
        self._fresh = 0

    def call(self, *args):
        env = {a.arg: v for a, v in zip(self.tree.args.args, args)}
        try:
            self.block(self.tree.body, env)
        except _Return as r:
            return r.v
        raise Unsupported("no return")

    # -- statements
    def block(self, stmts, env):
        for s in stmts:
            self.stmt(s, env)

    def stmt(self, s, env):
        if isinstance(s, ast.Expr) and isinstance(s.value, ast.Constant):
            return  # docstring
        if isinstance(s, ast.Assign):
            if len(s.targets) != 1:
                raise Unsupported("multi-assign")
            self.assign(s.targets[0], self.expr(s.value, env), env)
            return
        if isinstance(s, ast.For):
            it = self.expr(s.iter, env)
            if not isinstance(it, range):
                raise Unsupported("for over non-range")
            if not isinstance(s.target, ast.Name):
                raise Unsupported("for target")
            outer = self._depth == 0
            self._depth += 1
            for i in it:
                env[s.target.id] = i
                rec = None
                if outer and self.cut:
                    rec = {"i": i, "pre": {}, "post": {}}
                    for name in self.cut:
                        if i != it[0]:  # havoc: arbitrary values for the loop-carried state
                            fresh = []
                            for _ in env[name]:
                                self._fresh += 1
                                fresh.append(z3.Int(f"cut{self._fresh}"))
                            env[name] = fresh
                        rec["pre"][name] = list(env[name])
                self.block(s.body, env)
                if rec is not None:
                    for name in self.cut:
                        rec["post"][name] = list(env[name])
                    self.iterations.append(rec)
            self._depth -= 1
            return
        if isinstance(s, ast.If):
            c = self.expr(s.test, env)
            if _is_sym(c):
                e1 = self._copyenv(env)
                e2 = self._copyenv(env)
                self.block(s.body, e1)
                self.block(s.orelse, e2)
                self._merge(c, e1, e2, env)
                self.merges += 1
            elif c:
                self.block(s.body, env)
            else:
                self.block(s.orelse, env)
            return
        if isinstance(s, ast.Return):
            raise _Return(self.expr(s.value, env))
        raise Unsupported(f"statement {type(s).__name__}")

    def _copyenv(self, env):
        return {k: (list(v) if isinstance(v, list) else v) for k, v in env.items()}

    def _merge(self, c, e1, e2, env):
        for k in set(e1) | set(e2):
            if k not in e1 or k not in e2:
                raise Unsupported(f"variable {k} defined in one branch only")
            a, b = e1[k], e2[k]
            if isinstance(a, list) and isinstance(b, list):
                if len(a) != len(b):
                    raise Unsupported("list length differs across branches")
                env[k] = [x if (x is y) else z3.If(c, x, y) if (_is_sym(x) or _is_sym(y) or x != y) else x for x, y in zip(a, b)]
            elif isinstance(a, list) or isinstance(b, list):
                raise Unsupported("list/non-list merge")
            elif a is b:
                env[k] = a
            elif _is_sym(a) or _is_sym(b) or a != b:
                env[k] = z3.If(c, a, b)
            else:
                env[k] = a

    def assign(self, target, value, env):
        if isinstance(target, ast.Name):
            env[target.id] = value
        elif isinstance(target, ast.Subscript):
            lst = self.expr(target.value, env)
            idx = self.expr(target.slice, env)
            if _is_sym(idx) or not isinstance(lst, list):
                raise Unsupported("symbolic index / non-list store")
            lst[idx] = value
        else:
            raise Unsupported("assign target")

    # -- expressions
    def expr(self, e, env):
        if isinstance(e, ast.Constant):
            return e.value
        if isinstance(e, ast.Name):
            if e.id in env:
                return env[e.id]
            raise Unsupported(f"name {e.id}")
        if isinstance(e, ast.BinOp):
            a, b = self.expr(e.left, env), self.expr(e.right, env)
            if isinstance(e.op, ast.Add):
                return a + b
            if isinstance(e.op, ast.Sub):
                return a - b
            raise Unsupported("binop")
        if isinstance(e, ast.Compare):
            if len(e.ops) != 1:
                raise Unsupported("chained compare")
            a, b = self.expr(e.left, env), self.expr(e.comparators[0], env)
            op = e.ops[0]
            if isinstance(op, ast.Eq):
                return a == b
            if isinstance(op, ast.NotEq):
                return a != b
            if isinstance(op, ast.Lt):
                return a < b
            if isinstance(op, ast.LtE):
                return a <= b
            raise Unsupported("compare op")
        if isinstance(e, ast.Subscript):
            v = self.expr(e.value, env)
            i = self.expr(e.slice, env)
            if _is_sym(i):
                raise Unsupported("symbolic index")
            return v[i]
        if isinstance(e, ast.Tuple) or isinstance(e, ast.List):
            return [self.expr(x, env) for x in e.elts]
        if isinstance(e, ast.ListComp):
            if len(e.generators) != 1 or e.generators[0].ifs:
                raise Unsupported("listcomp")
            g = e.generators[0]
            it = self.expr(g.iter, env)
            out = []
            for i in it:
                env2 = dict(env)
                if isinstance(g.target, ast.Name):
                    env2[g.target.id] = i
                out.append(self.expr(e.elt, env2))
            return out
        if isinstance(e, ast.Call):
            f = e.func
            args = [self.expr(a, env) for a in e.args]
            if isinstance(f, ast.Name):
                if f.id == "len":
                    return len(args[0])
                if f.id == "range":
                    return range(*args)
                if f.id == "list":
                    return list(args[0])
                if f.id == "min":
                    vals = args[0] if len(args) == 1 else args
                    return _min(list(vals))
            if isinstance(f, ast.Attribute) and isinstance(f.value, ast.Name) and f.value.id == "copy" and f.attr == "copy":
                return list(args[0])
            raise Unsupported("call " + ast.dump(f))
        raise Unsupported(f"expression {type(e).__name__}")
