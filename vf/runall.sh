#!/bin/bash
# usage: vf/runall.sh quick|thorough [props...]   (development helper; logs under .work/)
tier=${1:-quick}; shift
props=${@:-C01 C02 C03 C04 C05 C06 C07 C08 C09 C10 C11 C12 C13 C14 C15 C16 C17 C18 C19 C20}
cd /verif; mkdir -p .work
for p in $props; do
  s=$(date +%s)
  ./check $p --tier $tier > .work/run_$p.log 2>&1
  rc=$?
  echo "$p rc=$rc wall=$(( $(date +%s) - s ))s" | tee -a .work/runall.log
done
