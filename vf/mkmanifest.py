"""Regenerate /verif/MANIFEST.json from the per-property table below (run after editing)."""
import json

NA_REASON_DEFAULT = "check not built yet in this round (see DESIGN.md §3); no obligation is registered, so nothing is claimed"

# property -> (technique, level text, level_note, design_ref)
CLAIMED = {}


def claim(pid, technique, text, note, ref):
    CLAIMED[pid] = (technique, text, note, ref)


from vf.props import PROPS, NOT_APPLICABLE  # noqa: E402

checks = []
for pid, (technique, text, note, ref) in sorted(PROPS.items()):
    checks.append(
        {
            "property_id": pid,
            "quick_cmd": f"./check {pid} --tier quick",
            "thorough_cmd": f"./check {pid} --tier thorough",
            "evidence_file": f"/verif/evidence/{pid}.json",
            "replay_cmd_template": f"./check {pid} --replay {{path}}",
            "engine": "vf (CrossHair symbolic execution of the real functions + direct z3 encodings)",
            "level_claimed": {"category": "model_checking", "text": text, "design_ref": ref},
            "level_note": note,
            "technique": technique,
        }
    )
m = {
    "version": 1,
    "setup_cmd": "bash vf/bootstrap.sh",
    "hooks": {
        "guard": "PYXFORM_VERIF",
        "enable": "no hooks are compiled into /repo: all instrumentation is harness-side monkeypatching (DESIGN §2.1 shims); the variable is unused and unset by the checks",
        "baseline_off_cmd": "cd /repo && env -u PYXFORM_VERIF /venv/bin/python -m pytest -ra -q -p no:cacheprovider --timeout=900 --continue-on-collection-errors",
        "source_commits": [],
        "add_only": True,
    },
    "engines": [
        {
            "name": "E1-crosshair",
            "path": "vf/worker.py",
            "serves_properties": sorted(PROPS),
            "kind_free_text": "crosshair-tool 0.0.110: symbolic execution of the real pyxform functions (CPython bytecode) with z3 deciding every path condition; obligations are PEP-316 contracts in harness/Cxx.py; reachability twin + concrete replay without shims",
        },
        {
            "name": "E2-z3",
            "path": "vf/e2_regex.py, vf/e2_dp.py",
            "serves_properties": [p for p in sorted(PROPS) if p in ("C01", "C03", "C09", "C10", "C14", "C17", "C19", "C20")],
            "kind_free_text": "direct z3 encodings regenerated from the imported source at run time: regex -> z3 Re (language inclusion), If-merging evaluator for integer kernels, two-thread interleaving model",
        },
    ],
    "checks": checks,
    "not_applicable": [{"property_id": p, "reason": r} for p, r in sorted(NOT_APPLICABLE.items())],
    "notes": "Thorough tier = every quick obligation plus the deeper obligations that fit a per-property CPU budget (vf/registry.py:thorough_selection; VF_THOROUGH_BUDGET, VF_THOROUGH_MAX_TIMEOUT raise it); deeper obligations that are defined but not run are listed in the evidence file under coverage.defined_not_run and are outside the claim. E2 engines also serve C10 (numeric literal lexing). Exit codes: 0 all obligations discharged (KNOWN-FINDING lines allowed), 1 replayed violation not listed in known_findings.json, 3 inconclusive / harness error (never reported as success). All results are bounded; bounds and what lies outside them are in each evidence file and DESIGN.md.",
}
json.dump(m, open("/verif/MANIFEST.json", "w"), indent=1)
print("claimed:", sorted(PROPS), "not_applicable:", sorted(NOT_APPLICABLE))
