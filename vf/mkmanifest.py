"""Regenerate /verif/MANIFEST.json from the per-property table below (run after editing)."""
import json

NA_REASON_DEFAULT = "check not built yet in this round (see DESIGN.md §3); no obligation is registered, so nothing is claimed"

# property -> (technique, level text, level_note, design_ref)
CLAIMED = {}


def claim(pid, technique, text, note, ref):
    CLAIMED[pid] = (technique, text, note, ref)


from vf.props import PROPS, NOT_APPLICABLE  # noqa: E402

# obligations added after the round-3 re-test (DESIGN §8): appended to the level note of each property
R3_ADDED = {
    "C01": "e.saveto-header (every accepted spelling of the save_to header, with/without entities sheet: prefixes declared)",
    "C02": "f.render-history (render / add element / render on one Survey object)",
    "C03": "f.prefix-siblings, f.indexed-repeats, f.root-reference, f.known-forms (F24-F26), b.uneven-chains (ancestor chains differing in length by 3)",
    "C04": "d.type-table (37 documented type cells against an independent table), e.params-appearance (parameter-derived attributes next to appearance / body:: cells)",
    "C05": "i.api-isolation (logic attached through the element API stays on its own bind, also across conversions)",
    "C06": "h.instance-exprs (texts with 1-3 instance() expressions used twice; boundary finder with the cache model when memoised)",
    "C07": "f.regenerate (itext closure on every regeneration from one Survey object, search() selects included)",
    "C08": "c.languages-named (every translation is a language some column names, unlabelled choices included)",
    "C09": "d.itemsets-csv-spellings ('list name' header spelling, caller's rows unchanged, second conversion of the same dict)",
    "C10": "f.typed-defaults (real classifier: alias type cells x hyphenated / arithmetic / function defaults, exactly once)",
    "C11": "a.routing.inner-space (runs of spaces inside title / version / style)",
    "C12": "d.csv-text (real csv_to_dict on CSV text with line breaks inside quoted cells; csv.reader / StringIO models)",
    "C13": "f.setting-truth (7 truth spellings incl. true()/false() of yes/no settings against the canonical spelling)",
    "C14": "b.documents-independent (two generated documents kept alive do not share nodes; last-saved form kind)",
    "C15": "a.shapes-unicode-space (characters str.isspace() accepts but XML does not: U+2000-200A, U+00A0, U+3000)",
    "C16": "d.user-names (language / attribute / list names that coincide with internal field names)",
    "C17": "a.catalogue[m28] (same-stem from-file selects with different extensions)",
    "C18": "e.decode-stream (1-3 arbitrary bytes of validator output always decode, ASCII preserved)",
    "C19": "f.sequence (two conversions in one process, every pair of declaration kinds)",
    "C20": "b.levenshtein-small (E1: whole function vs textbook recursion, lengths 0-4)",
}
checks = []
for pid, (technique, text, note, ref) in sorted(PROPS.items()):
    checks.append(
        {
            "property_id": pid,
            "quick_cmd": f"./check {pid} --tier quick",
            "thorough_cmd": f"./check {pid} --tier thorough",
            "evidence_file": f"/verif/evidence/{pid}.json",
            "replay_cmd_template": f"./check {pid} --replay {{path}}",
            "engine": "vf (CrossHair symbolic execution of the real functions + direct z3 encodings)",
            "level_claimed": {"category": "model_checking", "text": text, "design_ref": ref},
            "level_note": note + " Added after round 3: " + R3_ADDED[pid] + ".",
            "technique": technique,
        }
    )
m = {
    "version": 1,
    "setup_cmd": "bash vf/bootstrap.sh",
    "hooks": {
        "guard": "PYXFORM_VERIF",
        "enable": "no hooks are compiled into /repo: all instrumentation is harness-side monkeypatching (DESIGN §2.1 shims); the variable is unused and unset by the checks",
        "baseline_off_cmd": "cd /repo && env -u PYXFORM_VERIF /venv/bin/python -m pytest -ra -q -p no:cacheprovider --timeout=900 --continue-on-collection-errors",
        "source_commits": [],
        "add_only": True,
    },
    "engines": [
        {
            "name": "E1-crosshair",
            "path": "vf/worker.py",
            "serves_properties": sorted(PROPS),
            "kind_free_text": "crosshair-tool 0.0.110: symbolic execution of the real pyxform functions (CPython bytecode) with z3 deciding every path condition; obligations are PEP-316 contracts in harness/Cxx.py; reachability twin + concrete replay without shims",
        },
        {
            "name": "E2-z3",
            "path": "vf/e2_regex.py, vf/e2_dp.py",
            "serves_properties": [p for p in sorted(PROPS) if p in ("C01", "C03", "C09", "C10", "C14", "C17", "C19", "C20")],
            "kind_free_text": "direct z3 encodings regenerated from the imported source at run time: regex -> z3 Re (language inclusion), If-merging evaluator for integer kernels, two-thread interleaving model",
        },
    ],
    "checks": checks,
    "not_applicable": [{"property_id": p, "reason": r} for p, r in sorted(NOT_APPLICABLE.items())],
    "notes": "Thorough tier = every quick obligation plus the deeper obligations that fit a per-property CPU budget (vf/registry.py:thorough_selection; VF_THOROUGH_BUDGET, VF_THOROUGH_MAX_TIMEOUT raise it); deeper obligations that are defined but not run are listed in the evidence file under coverage.defined_not_run and are outside the claim. E2 engines also serve C10 (numeric literal lexing). Exit codes: 0 all obligations discharged (KNOWN-FINDING lines allowed), 1 replayed violation not listed in known_findings.json, 3 inconclusive / harness error (never reported as success). All results are bounded; bounds and what lies outside them are in each evidence file and DESIGN.md.",
}
json.dump(m, open("/verif/MANIFEST.json", "w"), indent=1)
print("claimed:", sorted(PROPS), "not_applicable:", sorted(NOT_APPLICABLE))
