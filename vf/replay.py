"""Concrete re-execution of an obligation in plain Python, symbolic-only shims OFF.

usage: python -m vf.replay <harness module> <obligation key> '<json {"args":[..],"kwargs":{..}}>'
Prints `@@VF@@ <json>`: {"ok": bool, "returns": repr, "exception": {...}|null, "public": {...}|null}
"""
from __future__ import annotations

import json
import os
import sys
import traceback


def run(modname: str, key: str, call: dict) -> dict:
    os.environ["VF_SYMBOLIC"] = "0"
    sys.path.insert(0, "/verif")
    import importlib

    importlib.import_module(modname)
    from vf.registry import REG

    o = REG[key]
    out = {"key": key, "ok": False, "returns": None, "exception": None, "public": None}
    args = call.get("args", [])
    kwargs = call.get("kwargs", {})
    allowed = _declared_raises(o.fn)
    if o.hashseed_public is not None:
        return _hashseed_replay(o, out, args, kwargs)
    try:
        r = o.fn(*args, **kwargs)
        out["returns"] = repr(r)
        out["ok"] = r is True or r == True  # noqa: E712
    except Exception as e:  # noqa: BLE001
        tb = traceback.extract_tb(e.__traceback__)
        site = None
        for fr in reversed(tb):
            if fr.filename.startswith(os.environ.get("VF_REPO", "/repo") + "/"):
                site = f"{fr.filename[len(os.environ.get("VF_REPO", "/repo")) + 1 :]}:{fr.lineno}:{fr.name}"
                break
        out["exception"] = {"type": type(e).__name__, "msg": str(e)[:400], "site": site}
        out["returns"] = f"raises {type(e).__name__}"
        out["ok"] = any(isinstance(e, a) for a in allowed)
    if o.public is not None:
        try:
            import inspect

            names = list(inspect.signature(o.fn).parameters)
            bound = dict(zip(names, args))
            bound.update(kwargs)
            out["public"] = o.public(bound)
        except Exception as e:  # noqa: BLE001
            out["public"] = {"error": f"{type(e).__name__}: {e}"}
    return out


_SEED_SCRIPT = """
import sys, json, hashlib
import os; sys.path.insert(0, os.environ.get('VF_REPO', '/repo'))
from pyxform.xls2xform import convert
wb = json.loads(sys.argv[1])
try:
    r = convert(wb)
    blob = json.dumps([r.xform, r.warnings, r.itemsets])
except Exception as e:
    blob = 'ERR ' + type(e).__name__ + ' ' + str(e)
print(hashlib.sha1(blob.encode()).hexdigest())
"""


def _hashseed_replay(o, out, args, kwargs):
    """Replay for set-order counterexamples: convert the same workbook through the public
    API under different PYTHONHASHSEED values; any difference reproduces the violation."""
    import inspect
    import subprocess

    names = list(inspect.signature(o.fn).parameters)
    bound = dict(zip(names, args))
    bound.update(kwargs)
    for k, v in (getattr(o.fn, "__globals__", {}) or {}).items():
        if k in ("variant",) and k not in bound:
            bound[k] = v
    pub = o.hashseed_public(bound)
    wb = json.dumps(pub["workbook"])
    seen = {}
    for seed in range(0, 24):
        env = dict(os.environ, PYTHONHASHSEED=str(seed))
        p = subprocess.run(["/venv/bin/python", "-c", _SEED_SCRIPT, wb], capture_output=True, text=True, env=env, timeout=120)
        seen.setdefault(p.stdout.strip(), []).append(seed)
    out["public"] = {"workbook": pub["workbook"], "outputs_by_seed": {k[:10]: v for k, v in seen.items()}}
    out["ok"] = len(seen) == 1
    out["returns"] = f"{len(seen)} distinct outputs over PYTHONHASHSEED 0..23"
    return out


def _declared_raises(fn):
    import builtins

    res = []
    for ln in (fn.__doc__ or "").splitlines():
        s = ln.strip()
        if s.startswith("vraises:"):
            s = s[1:]
        if s.startswith("raises:"):
            for name in s[len("raises:") :].split(","):
                name = name.strip()
                if not name:
                    continue
                ex = fn.__globals__.get(name) or getattr(builtins, name, None)
                if isinstance(ex, type):
                    res.append(ex)
    return tuple(res)


if __name__ == "__main__":
    res = run(sys.argv[1], sys.argv[2], json.loads(sys.argv[3]))
    sys.stdout.write("\n@@VF@@ " + json.dumps(res) + "\n")
