"""Obligation registry.

An obligation is a Python function with a PEP-316 contract whose body drives real
pyxform code (imported from /repo) and returns True when the independent oracle is
satisfied.  All parameters are `int` / `bool` so CrossHair's counterexamples can be
re-evaluated literally.
"""
from __future__ import annotations

import dataclasses
from typing import Any, Callable, Dict, List, Optional, Sequence

REG: Dict[str, "Obligation"] = {}


@dataclasses.dataclass
class Obligation:
    prop: str
    oid: str  # unique within property, e.g. "a.text.len2"
    fn: Optional[Callable]
    engine: str = "E1-crosshair"  # or "E2-z3"
    tiers: Sequence[str] = ("quick", "thorough")
    timeout: float = 120.0  # CPU seconds per condition (crosshair) / solver seconds
    per_path_timeout: Optional[float] = None
    kernel: Sequence[str] = ()  # qualified names of repo functions encoded
    shims: Sequence[str] = ()
    bounds: str = ""
    symbolic: str = ""  # description of the symbolic variables
    public: Optional[Callable[[Dict[str, Any]], Dict[str, Any]]] = None
    # known finding handling
    expect: str = "confirm"  # "confirm" | "known"  (known: a listed finding is expected)
    classifier: Optional[Callable[[Dict[str, Any], Dict[str, Any]], Optional[str]]] = None
    # E2 obligations: run(tier) -> dict(verdict=..., ...)
    run: Optional[Callable[[str], Dict[str, Any]]] = None
    reach: bool = True  # generate the reachability twin
    weight: float = 1.0  # scheduling hint (expected seconds)
    setorder: bool = False  # S8: solver-chosen set iteration order inside /repo/pyxform frames
    hashseed_public: Optional[Callable[[Dict[str, Any]], Dict[str, Any]]] = None  # replay across PYTHONHASHSEED
    group: str = ""

    @property
    def key(self) -> str:
        return f"{self.prop}.{self.oid}"


def ob(prop: str, oid: str, **meta):
    def deco(fn):
        o = Obligation(prop=prop, oid=oid, fn=fn, **meta)
        if o.key in REG:
            raise RuntimeError(f"duplicate obligation {o.key}")
        REG[o.key] = o
        fn.__vf_obligation__ = o
        return fn

    return deco


def ob_e2(prop: str, oid: str, run, **meta):
    o = Obligation(prop=prop, oid=oid, fn=None, run=run, engine="E2-z3", reach=False, **meta)
    if o.key in REG:
        raise RuntimeError(f"duplicate obligation {o.key}")
    REG[o.key] = o
    return o


def for_property(prop: str, tier: str) -> List[Obligation]:
    return [o for o in REG.values() if o.prop == prop and tier in o.tiers]


def _srcfn(name: str, params, doc_lines, body: str, g: dict):
    """Create a function from generated source text (CrossHair reads contracts from source)."""
    import linecache

    doc = "\n".join("    " + x for x in doc_lines)
    src = f'def {name}({", ".join(params)}) -> bool:\n    """\n{doc}\n    """\n{body}\n'
    fname = f"<vf-generated {name}>"
    linecache.cache[fname] = (len(src), None, src.splitlines(True), fname)
    ns: dict = {}
    exec(compile(src, fname, "exec"), g, ns)
    return ns[name]


def specialise(prop: str, oid: str, fn, fixed: Dict[str, Sequence[Any]], reach_if=None, skip_if=None, **meta):
    """Register one obligation per combination of concrete values for the `fixed`
    parameters of `fn` (discrete structure is split over processes; every remaining
    parameter stays symbolic)."""
    import inspect
    import itertools

    sig = inspect.signature(fn)
    names = list(sig.parameters)
    # base functions carry `vpre:/vpost:/vraises:` so that CrossHair does not treat them as
    # contract-bearing callees (it would enforce/short-circuit the call and hide violations)
    docl = []
    for ln in (fn.__doc__ or "").splitlines():
        t = ln.strip()
        head = t.split(":")[0]
        if head in ("vpre", "vpost", "vraises"):
            docl.append(t[1:])
        elif head in ("pre", "post", "raises"):
            raise RuntimeError(f"{fn.__name__}: base functions for specialise() must use vpre:/vpost:/vraises:")
    keys = list(fixed)
    out = []
    for combo in itertools.product(*(fixed[k] for k in keys)):
        fx = dict(zip(keys, combo))
        if skip_if is not None and skip_if(fx):
            continue
        suffix = "_".join(f"{k}{int(v) if isinstance(v, bool) else v}" for k, v in fx.items())
        g = dict(fn.__globals__)
        g.update(fx)
        g["__vf_base"] = fn
        params = [f"{n}: {getattr(sig.parameters[n].annotation, '__name__', 'int')}" for n in names if n not in fx]
        call = ", ".join(f"{n}={n}" for n in names)
        f2 = _srcfn(f"{fn.__name__}__{suffix}".replace("-", "m"), params, docl, f"    return __vf_base({call})", g)
        f2.__module__ = fn.__module__
        m = dict(meta)
        if reach_if is not None:
            m["reach"] = bool(reach_if(fx))
        if "symbolic" in m:
            m["symbolic"] = m["symbolic"] + f" [fixed in this instance: {fx}]"
        ob(prop, f"{oid}[{suffix}]", **m)(f2)
        out.append(f2)
    return out
