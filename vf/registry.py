"""Obligation registry.

An obligation is a Python function with a PEP-316 contract whose body drives real
pyxform code (imported from /repo) and returns True when the independent oracle is
satisfied.  All parameters are `int` / `bool` so CrossHair's counterexamples can be
re-evaluated literally.
"""
from __future__ import annotations

import dataclasses
from typing import Any, Callable, Dict, List, Optional, Sequence

REG: Dict[str, "Obligation"] = {}


@dataclasses.dataclass
class Obligation:
    prop: str
    oid: str  # unique within property, e.g. "a.text.len2"
    fn: Optional[Callable]
    engine: str = "E1-crosshair"  # or "E2-z3"
    tiers: Sequence[str] = ("quick", "thorough")
    timeout: float = 120.0  # CPU seconds per condition (crosshair) / solver seconds
    per_path_timeout: Optional[float] = None
    kernel: Sequence[str] = ()  # qualified names of repo functions encoded
    shims: Sequence[str] = ()
    bounds: str = ""
    symbolic: str = ""  # description of the symbolic variables
    public: Optional[Callable[[Dict[str, Any]], Dict[str, Any]]] = None
    # known finding handling
    expect: str = "confirm"  # "confirm" | "known"  (known: a listed finding is expected)
    classifier: Optional[Callable[[Dict[str, Any], Dict[str, Any]], Optional[str]]] = None
    # E2 obligations: run(tier) -> dict(verdict=..., ...)
    run: Optional[Callable[[str], Dict[str, Any]]] = None
    reach: bool = True  # generate the reachability twin
    weight: float = 1.0  # scheduling hint (expected seconds)
    setorder: bool = False  # S8: solver-chosen set iteration order inside /repo/pyxform frames
    hashseed_public: Optional[Callable[[Dict[str, Any]], Dict[str, Any]]] = None  # replay across PYTHONHASHSEED
    group: str = ""

    @property
    def key(self) -> str:
        return f"{self.prop}.{self.oid}"


def ob(prop: str, oid: str, **meta):
    def deco(fn):
        o = Obligation(prop=prop, oid=oid, fn=fn, **meta)
        if o.key in REG:
            raise RuntimeError(f"duplicate obligation {o.key}")
        REG[o.key] = o
        fn.__vf_obligation__ = o
        return fn

    return deco


def ob_e2(prop: str, oid: str, run, **meta):
    o = Obligation(prop=prop, oid=oid, fn=None, run=run, engine="E2-z3", reach=False, **meta)
    if o.key in REG:
        raise RuntimeError(f"duplicate obligation {o.key}")
    REG[o.key] = o
    return o


def for_property(prop: str, tier: str) -> List[Obligation]:
    obs = [o for o in REG.values() if o.prop == prop and tier in o.tiers]
    if tier != "thorough":
        return obs
    return thorough_selection(prop)[0]


def thorough_selection(prop: str):
    """The thorough tier = every quick obligation + the deeper obligations that fit the CPU budget
    (VF_THOROUGH_BUDGET weight units ~ CPU seconds per property, default 3000), chosen
    deterministically: round-robin over the obligation families, cheapest instance first, minus
    the instances listed in vf/thorough_excluded.json (deeper obligations that did not conclude
    within their time-out when the tier was sized).  Returns (selected, not_run): what is defined
    but not run is reported in the evidence file and is outside the claim."""
    import json
    import os

    allo = [o for o in REG.values() if o.prop == prop]
    base = [o for o in allo if "quick" in o.tiers]
    deep = [o for o in allo if "quick" not in o.tiers and "thorough" in o.tiers]
    cap = float(os.environ.get("VF_THOROUGH_MAX_TIMEOUT", "900"))  # longer obligations: defined, not run
    try:
        excluded = set(json.load(open(os.path.join(os.path.dirname(__file__), "thorough_excluded.json"))).get(prop, []))
    except Exception:  # noqa: BLE001
        excluded = set()
    budget = float(os.environ.get("VF_THOROUGH_BUDGET", "3000"))
    fams: Dict[str, list] = {}
    for o in deep:
        if o.key in excluded or o.timeout > cap:
            continue
        fams.setdefault(o.oid.split("[")[0], []).append(o)
    for f in fams.values():
        f.sort(key=lambda o: (o.weight, o.key))
    chosen, spent = [], 0.0
    progress = True
    while progress:
        progress = False
        for name in sorted(fams):
            f = fams[name]
            if f and spent + f[0].weight <= budget:
                o = f.pop(0)
                chosen.append(o)
                spent += o.weight
                progress = True
    sel = {o.key for o in chosen}
    not_run = [o for o in deep if o.key not in sel]
    return base + chosen, not_run


def _srcfn(name: str, params, doc_lines, body: str, g: dict):
    """Create a function from generated source text (CrossHair reads contracts from source)."""
    import linecache

    doc = "\n".join("    " + x for x in doc_lines)
    src = f'def {name}({", ".join(params)}) -> bool:\n    """\n{doc}\n    """\n{body}\n'
    fname = f"<vf-generated {name}>"
    linecache.cache[fname] = (len(src), None, src.splitlines(True), fname)
    ns: dict = {}
    exec(compile(src, fname, "exec"), g, ns)
    return ns[name]


def specialise(prop: str, oid: str, fn, fixed: Dict[str, Sequence[Any]], reach_if=None, skip_if=None, **meta):
    """Register one obligation per combination of concrete values for the `fixed`
    parameters of `fn` (discrete structure is split over processes; every remaining
    parameter stays symbolic)."""
    import inspect
    import itertools

    sig = inspect.signature(fn)
    names = list(sig.parameters)
    # base functions carry `vpre:/vpost:/vraises:` so that CrossHair does not treat them as
    # contract-bearing callees (it would enforce/short-circuit the call and hide violations)
    docl = []
    for ln in (fn.__doc__ or "").splitlines():
        t = ln.strip()
        head = t.split(":")[0]
        if head in ("vpre", "vpost", "vraises"):
            docl.append(t[1:])
        elif head in ("pre", "post", "raises"):
            raise RuntimeError(f"{fn.__name__}: base functions for specialise() must use vpre:/vpost:/vraises:")
    keys = list(fixed)
    out = []
    for combo in itertools.product(*(fixed[k] for k in keys)):
        fx = dict(zip(keys, combo))
        if skip_if is not None and skip_if(fx):
            continue
        suffix = "_".join(f"{k}{int(v) if isinstance(v, bool) else v}" for k, v in fx.items())
        g = dict(fn.__globals__)
        g.update(fx)
        g["__vf_base"] = fn
        params = [f"{n}: {getattr(sig.parameters[n].annotation, '__name__', 'int')}" for n in names if n not in fx]
        call = ", ".join(f"{n}={n}" for n in names)
        f2 = _srcfn(f"{fn.__name__}__{suffix}".replace("-", "m"), params, docl, f"    return __vf_base({call})", g)
        f2.__module__ = fn.__module__
        m = dict(meta)
        if reach_if is not None:
            m["reach"] = bool(reach_if(fx))
        if "symbolic" in m:
            m["symbolic"] = m["symbolic"] + f" [fixed in this instance: {fx}]"
        ob(prop, f"{oid}[{suffix}]", **m)(f2)
        out.append(f2)
    return out
