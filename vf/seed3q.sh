#!/bin/bash
# development helper: process the ids appended to .work/r3_queue, at most $1 (default 2) at a time
cd /verif; par=${1:-2}; touch .work/r3_queue .work/r3_done
while true; do
  for p in $(cat .work/r3_queue); do
    grep -qx $p .work/r3_done && continue
    while [ $(ps -eo args | grep -c "^/bin/bash vf/seed3.sh C") -ge $par ]; do sleep 5; done
    echo $p >> .work/r3_done
    (vf/seed3.sh $p > .work/r3_seed3_$p.out 2>&1 &)
    sleep 2
  done
  sleep 10
done
