#!/bin/bash
# development helper: run every seeded mutation against its property's quick check
cd /verif
for d in seeded/*/; do
  id=$(basename $d)
  if [ -n "$1" ] && ! echo "$id" | grep -q "$1"; then continue; fi
  vf/seedtest.sh $id
done
