"""XML 1.0 (5th ed.) Name productions and Namespaces-in-XML NCName/QName, transcribed from the
W3C recommendations (independent of pyxform's regexes)."""

NAME_START_NO_COLON = [
    (0x41, 0x5A), (0x5F, 0x5F), (0x61, 0x7A), (0xC0, 0xD6), (0xD8, 0xF6), (0xF8, 0x2FF),
    (0x370, 0x37D), (0x37F, 0x1FFF), (0x200C, 0x200D), (0x2070, 0x218F), (0x2C00, 0x2FEF),
    (0x3001, 0xD7FF), (0xF900, 0xFDCF), (0xFDF0, 0xFFFD), (0x10000, 0xEFFFF),
]
NAME_CHAR_EXTRA = [(0x2D, 0x2E), (0x30, 0x39), (0xB7, 0xB7), (0x300, 0x36F), (0x203F, 0x2040)]
XML_CHAR = [(0x9, 0xA), (0xD, 0xD), (0x20, 0xD7FF), (0xE000, 0xFFFD), (0x10000, 0x10FFFF)]


def z3_ncname():
    import z3
    from vf.e2_regex import ranges_re

    start = ranges_re(NAME_START_NO_COLON)
    rest = ranges_re(NAME_START_NO_COLON + NAME_CHAR_EXTRA)
    return z3.Concat(start, z3.Star(rest))


def z3_qname():
    import z3
    from vf.e2_regex import ch

    nc = z3_ncname()
    return z3.Union(nc, z3.Concat(nc, ch(0x3A), nc))


def is_ncname(s: str) -> bool:
    def inr(c, rs):
        return any(lo <= c <= hi for lo, hi in rs)

    if not s:
        return False
    if not inr(ord(s[0]), NAME_START_NO_COLON):
        return False
    return all(inr(ord(c), NAME_START_NO_COLON + NAME_CHAR_EXTRA) for c in s[1:])


def is_qname(s: str) -> bool:
    parts = s.split(":")
    return 1 <= len(parts) <= 2 and all(is_ncname(p) for p in parts)
