"""Independent reference tables, written from the property statements, README.rst and the
XLSForm documentation (xlsform.org) — never read from pyxform's own tables."""

# C05/C13: documented truth spellings for bind logic cells -> XPath booleans
TRUE_SPELLINGS = ("yes", "Yes", "YES", "true", "True", "TRUE")
FALSE_SPELLINGS = ("no", "No", "NO", "false", "False", "FALSE")


def norm_truth(v: str) -> str:
    """yes/no normalisation applied to bind logic values (relevant, required, readonly,
    constraint, calculate)."""
    for s in TRUE_SPELLINGS:
        if v == s:
            return "true()"
    for s in FALSE_SPELLINGS:
        if v == s:
            return "false()"
    return v

# C05/C13: documented survey logic columns: (spellings..., bind attribute they populate)
LOGIC_COLUMNS = [
    (("relevant", "relevance", "bind::relevant"), "relevant"),
    (("required", "bind::required", "Required"), "required"),
    (("read_only", "readonly", "bind::readonly"), "readonly"),
    (("constraint", "bind::constraint", "Constraint"), "constraint"),
    (("calculation", "calculate", "bind::calculate"), "calculate"),
    (("constraint_message", "constraining_message", "bind::jr:constraintMsg"), "jr:constraintMsg"),
    (("required_message", "requiredmsg", "bind::jr:requiredMsg"), "jr:requiredMsg"),
]
# attributes whose values get the yes/no -> true()/false() normalisation
TRUTH_NORMALISED = ("relevant", "required", "readonly", "constraint", "calculate")
