"""Independent reference tables, written from the property statements, README.rst and the
XLSForm documentation (xlsform.org) — never read from pyxform's own tables."""

# C05/C13: documented truth spellings for bind logic cells -> XPath booleans
TRUE_SPELLINGS = ("yes", "Yes", "YES", "true", "True", "TRUE")
FALSE_SPELLINGS = ("no", "No", "NO", "false", "False", "FALSE")


def norm_truth(v: str) -> str:
    """yes/no normalisation applied to bind logic values (relevant, required, readonly,
    constraint, calculate)."""
    for s in TRUE_SPELLINGS:
        if v == s:
            return "true()"
    for s in FALSE_SPELLINGS:
        if v == s:
            return "false()"
    return v

# C05/C13: documented survey logic columns: (spellings..., bind attribute they populate)
LOGIC_COLUMNS = [
    (("relevant", "relevance", "bind::relevant"), "relevant"),
    (("required", "bind::required", "Required"), "required"),
    (("read_only", "readonly", "bind::readonly"), "readonly"),
    (("constraint", "bind::constraint", "Constraint"), "constraint"),
    (("calculation", "calculate", "bind::calculate"), "calculate"),
    (("constraint_message", "constraining_message", "bind::jr:constraintMsg"), "jr:constraintMsg"),
    (("required_message", "requiredmsg", "bind::jr:requiredMsg"), "jr:requiredMsg"),
]
# attributes whose values get the yes/no -> true()/false() normalisation
TRUTH_NORMALISED = ("relevant", "required", "readonly", "constraint", "calculate")


# --- question type table (C04) -------------------------------------------------------------
# Written from the XLSForm reference (xlsform.org "Question types", "Metadata") and the ODK XForms
# spec (bind types, body controls, media types); not read from pyxform's question_type_dictionary.
# type cell -> (body control tag or None, bind type, {control attributes}, {bind attributes})
QUESTION_TYPES = [
    ("integer", "input", "int", {}, {}),
    ("decimal", "input", "decimal", {}, {}),
    ("text", "input", "string", {}, {}),
    ("note", "input", "string", {}, {"readonly": "true()"}),
    ("geopoint", "input", "geopoint", {}, {}),
    ("geotrace", "input", "geotrace", {}, {}),
    ("geoshape", "input", "geoshape", {}, {}),
    ("date", "input", "date", {}, {}),
    ("time", "input", "time", {}, {}),
    ("dateTime", "input", "dateTime", {}, {}),
    ("barcode", "input", "barcode", {}, {}),
    ("image", "upload", "binary", {"mediatype": "image/*"}, {}),
    ("audio", "upload", "binary", {"mediatype": "audio/*"}, {}),
    ("video", "upload", "binary", {"mediatype": "video/*"}, {}),
    ("file", "upload", "binary", {"mediatype": "application/*"}, {}),
    ("acknowledge", "trigger", "string", {}, {}),
    ("range", "range", "int", {"start": "1", "end": "10", "step": "1"}, {}),
    ("select_one l1", "select1", "string", {}, {}),
    ("select_multiple l1", "select", "string", {}, {}),
    ("rank l1", "odk:rank", "odk:rank", {}, {}),
    ("hidden", None, "string", {}, {}),
    ("background-audio", None, "binary", {}, {}),
    ("start", None, "dateTime", {}, {"jr:preload": "timestamp", "jr:preloadParams": "start"}),
    ("end", None, "dateTime", {}, {"jr:preload": "timestamp", "jr:preloadParams": "end"}),
    ("today", None, "date", {}, {"jr:preload": "date", "jr:preloadParams": "today"}),
    ("deviceid", None, "string", {}, {"jr:preload": "property", "jr:preloadParams": "deviceid"}),
    ("username", None, "string", {}, {"jr:preload": "property", "jr:preloadParams": "username"}),
    ("phonenumber", None, "string", {}, {"jr:preload": "property", "jr:preloadParams": "phonenumber"}),
    ("email", None, "string", {}, {"jr:preload": "property", "jr:preloadParams": "email"}),
    ("start-geopoint", None, "geopoint", {}, {}),
    # documented alias spellings of the above
    ("int", "input", "int", {}, {}),
    ("string", "input", "string", {}, {}),
    ("photo", "upload", "binary", {"mediatype": "image/*"}, {}),
    ("location", "input", "geopoint", {}, {}),
    ("datetime", "input", "dateTime", {}, {}),
    ("select one l1", "select1", "string", {}, {}),
    ("select all that apply from l1", "select", "string", {}, {}),
]
